(* Transform sequence (C13): for EVERY list of 1..8 stages that keep their own contract
   ([good]: a successful Forward stays within MaxEncodedLen, is never empty and is undone by Inverse
   as soon as the output slice can hold the original; MaxEncodedLen is monotone), every block and
   every destination size the compressor may provide, Inverse(Forward(block)) = block with the skip
   flags Forward computed - whichever stages applied or declined, however much a stage expanded
   its input (the working buffers of Inverse are large enough for every intermediate result). *)
From Coq Require Import List NArith Bool Arith Lia ZifyN ZifyNat ZifyBool.
From KV Require Import Model.Seq.
Import ListNotations.

Record good (t : tr) : Prop := {
  g_bound : forall x cap y, t_fwd t x cap = Some y -> length y <= t_max t (length x) /\ (x <> [] -> y <> []);
  g_inv : forall x cap y, t_fwd t x cap = Some y -> forall cap', length x <= cap' -> t_inv t y cap' = Some x;
  g_mono : forall a b, a <= b -> t_max t a <= t_max t b
}.

Lemma max_enc_ge : forall ts r, r <= max_enc ts r.
Proof. induction ts as [|t q IH]; intros r; cbn [max_enc]; [lia|]. specialize (IH (Nat.max r (t_max t r))). lia. Qed.

Lemma max_enc_mono : forall ts a b, Forall good ts -> a <= b -> max_enc ts a <= max_enc ts b.
Proof.
  induction ts as [|t q IH]; intros a b Hg Hab; cbn [max_enc]; [exact Hab|].
  inversion Hg as [|? ? Ht Hq]; subst. apply IH; [exact Hq|]. pose proof (g_mono t Ht a b Hab). lia.
Qed.

Lemma bit_index_neq (i j : N) : (i < 8)%N -> (j < 8)%N -> i <> j -> (7 - i <> 7 - j)%N.
Proof. lia. Qed.

Lemma inv_loop_all_skipped : forall ts i R skip st, (N.of_nat (length ts) + i <= 8)%N ->
  (forall j, (j < 8)%N -> N.testbit skip (7 - j) = true) -> inv_loop ts i R skip st = Some st.
Proof.
  induction ts as [|t q IH]; intros i R skip st Hl Hb; cbn [inv_loop]; [reflexivity|].
  cbn [length] in Hl. rewrite IH by (try lia; exact Hb). rewrite Hb by lia. reflexivity.
Qed.

Lemma fwd_inv_loop : forall ts i req cur inlen outlen skip swaps cur' skip' swaps' r R st0,
  Forall good ts -> (N.of_nat (length ts) + i <= 8)%N ->
  (forall j, (i <= j < 8)%N -> N.testbit skip (7 - j) = true) ->
  fwd_loop ts i req cur inlen outlen skip swaps = (cur', skip', swaps') ->
  length cur <= r -> max_enc ts r <= R -> is_cur st0 = cur' ->
  (forall j, (j < i)%N -> N.testbit skip' (7 - j) = N.testbit skip (7 - j)) /\
  (cur <> [] -> cur' <> []) /\
  exists st1, inv_loop ts i R skip' st0 = Some st1 /\ is_cur st1 = cur.
Proof.
  induction ts as [|t q IH]; intros i req cur inlen outlen skip swaps cur' skip' swaps' r R st0 Hg Hl Hb H Hr HR Hst.
  - cbn [fwd_loop] in H. inversion H as [[H1 H2 H3]]. split; [reflexivity|]. split; [auto|]. exists st0. split; [reflexivity|]. congruence.
  - pose proof (Forall_inv Hg) as Ht. pose proof (Forall_inv_tail Hg) as Hq. cbn [length] in Hl. cbn [fwd_loop] in H. cbn [max_enc] in HR.
    set (outlen' := if outlen <? req then req else outlen) in H.
    set (r' := Nat.max r (t_max t r)) in HR.
    destruct (t_fwd t cur outlen') as [y|] eqn:Ef.
    + destruct (g_bound t Ht _ _ _ Ef) as [Hy Hyn].
      assert (Hyr : length y <= r') by (pose proof (g_mono t Ht _ _ Hr); unfold r'; lia).
      destruct (IH (i + 1)%N req y outlen' inlen (N.clearbit skip (7 - i)) (S swaps) cur' skip' swaps' r' R st0 Hq ltac:(lia))
        as (P1 & Pn & st1 & E1 & C1); try assumption.
      { intros j Hj. rewrite N.clearbit_eqb. rewrite Hb by lia.
        replace (7 - i =? 7 - j)%N with false by (symmetry; apply N.eqb_neq; lia). reflexivity. }
      split; [|split].
      * intros j Hj. rewrite P1 by lia. rewrite N.clearbit_eqb.
        replace (7 - i =? 7 - j)%N with false by (symmetry; apply N.eqb_neq; lia). apply andb_true_r.
      * intros Hc. apply Pn. apply Hyn. exact Hc.
      * cbn [inv_loop]. rewrite E1. rewrite P1 by lia. rewrite N.clearbit_eqb, N.eqb_refl. rewrite andb_false_r.
        set (ol := if is_outlen st1 <? R then R else is_outlen st1).
        assert (Hol : R <= ol) by (unfold ol; destruct (is_outlen st1 <? R) eqn:E; lia).
        rewrite C1. rewrite (g_inv t Ht _ _ _ Ef ol).
        -- eexists. split; [reflexivity|]. reflexivity.
        -- pose proof (max_enc_ge q r'). unfold r' in *. lia.
    + destruct (IH (i + 1)%N req cur inlen outlen' skip swaps cur' skip' swaps' r' R st0 Hq ltac:(lia))
        as (P1 & Pn & st1 & E1 & C1); try assumption.
      { intros j Hj. apply Hb. lia. }
      { unfold r'. lia. }
      split; [|split].
      * intros j Hj. apply P1. lia.
      * exact Pn.
      * cbn [inv_loop]. rewrite E1. rewrite P1 by lia. rewrite Hb by lia. exists st1. split; [reflexivity|exact C1].
Qed.

Lemma testbit_255 j : (j < 8)%N -> N.testbit 255 (7 - j) = true.
Proof.
  intros H. assert (C : forall k, (k < 8)%N -> N.testbit 255 k = true).
  { intros k Hk. destruct (N.eq_dec k 0) as [->|]; [reflexivity|]. destruct (N.eq_dec k 1) as [->|]; [reflexivity|].
    destruct (N.eq_dec k 2) as [->|]; [reflexivity|]. destruct (N.eq_dec k 3) as [->|]; [reflexivity|].
    destruct (N.eq_dec k 4) as [->|]; [reflexivity|]. destruct (N.eq_dec k 5) as [->|]; [reflexivity|].
    destruct (N.eq_dec k 6) as [->|]; [reflexivity|]. destruct (N.eq_dec k 7) as [->|]; [reflexivity|]. lia. }
  apply C. lia.
Qed.

Theorem seq_roundtrip ts x dcap skip y : Forall good ts -> length ts <= 8 ->
  seq_forward ts x dcap = FOk skip y ->
  forall dcap2, length x <= dcap2 -> seq_inverse ts y dcap2 skip = IOk x.
Proof.
  intros Hg Hl HF dcap2 Hd.
  unfold seq_forward in HF. destruct x as [|a l]; [discriminate|].
  destruct (dcap =? 0); [discriminate|]. destruct (dcap <? max_enc ts (length (a :: l))); [discriminate|].
  destruct (fwd_loop ts 0 (max_enc ts (length (a :: l))) (a :: l) (length (a :: l)) dcap SKIP_MASK 0) as [[cur' skip'] swaps'] eqn:E.
  assert (Hy : cur' = y /\ skip' = skip).
  { destruct (Nat.even swaps'); [destruct (dcap <? length cur'); [discriminate|]|]; inversion HF; auto. }
  destruct Hy as [-> ->]. clear HF.
  set (R := Nat.max dcap2 (max_enc ts dcap2)).
  set (st0 := mkIS y false true (length y) dcap2).
  destruct (fwd_inv_loop ts 0%N _ _ _ _ _ _ _ _ _ (length (a :: l)) R st0 Hg ltac:(lia) ltac:(intros j Hj; apply testbit_255; lia) E (le_n _))
    as (_ & Pn & st1 & E1 & C1).
  { pose proof (max_enc_mono ts _ _ Hg Hd). unfold R. lia. }
  { reflexivity. }
  unfold seq_inverse. destruct y as [|b l']; [exfalso; apply Pn; [discriminate|reflexivity]|].
  replace (dcap2 =? 0) with false by (symmetry; apply Nat.eqb_neq; cbn [length] in Hd; lia).
  destruct (N.eqb skip SKIP_MASK) eqn:Es.
  - apply N.eqb_eq in Es. subst skip.
    rewrite (inv_loop_all_skipped ts 0%N R SKIP_MASK st0 ltac:(lia) testbit_255) in E1. inversion E1; subst st1.
    cbn [is_cur st0] in C1. rewrite C1. replace (dcap2 <? length (a :: l)) with false by (symmetry; apply Nat.ltb_ge; exact Hd). reflexivity.
  - fold R. fold st0. rewrite E1, C1.
    replace (dcap2 <? length (a :: l)) with false by (symmetry; apply Nat.ltb_ge; exact Hd).
    destruct ((length (a :: l) =? 0) || negb (is_in_dst st1)); reflexivity.
Qed.

(* a successful Forward never exceeds what MaxEncodedLen advertised, and is never lost *)
Lemma fwd_loop_bound : forall ts i req cur inlen outlen skip swaps cur' skip' swaps' r,
  Forall good ts -> fwd_loop ts i req cur inlen outlen skip swaps = (cur', skip', swaps') ->
  length cur <= r -> length cur' <= max_enc ts r.
Proof.
  induction ts as [|t q IH]; intros i req cur inlen outlen skip swaps cur' skip' swaps' r Hg H Hr; cbn [fwd_loop max_enc] in *.
  - inversion H; subst. exact Hr.
  - inversion Hg as [|? ? Ht Hq]; subst.
    destruct (t_fwd t cur (if outlen <? req then req else outlen)) as [y|] eqn:Ef.
    + eapply IH; [exact Hq|exact H|]. destruct (g_bound t Ht _ _ _ Ef) as [Hy _]. pose proof (g_mono t Ht _ _ Hr). lia.
    + eapply IH; [exact Hq|exact H|]. lia.
Qed.

Theorem seq_forward_in_bounds ts x dcap : Forall good ts ->
  match seq_forward ts x dcap with
  | FOk _ y => length y <= max_enc ts (length x) /\ length y <= dcap
  | FLost _ _ => False
  | _ => True
  end.
Proof.
  intros Hg. unfold seq_forward. destruct x as [|a l]; [exact I|]. destruct (dcap =? 0); [exact I|].
  destruct (dcap <? max_enc ts (length (a :: l))) eqn:Ed; [exact I|]. apply Nat.ltb_ge in Ed.
  destruct (fwd_loop ts 0 (max_enc ts (length (a :: l))) (a :: l) (length (a :: l)) dcap SKIP_MASK 0) as [[cur' skip'] swaps'] eqn:E.
  pose proof (fwd_loop_bound _ _ _ _ _ _ _ _ _ _ _ (length (a :: l)) Hg E (le_n _)) as Hb.
  destruct (Nat.even swaps').
  - destruct (dcap <? length cur') eqn:E2; [apply Nat.ltb_lt in E2; lia|]. split; lia.
  - split; lia.
Qed.

(* the scripted stages of the correspondence harness keep the contract: the theorem is not vacuous *)
Lemma all_eq_repeat m k : all_eq m (repeat m k) = true.
Proof. induction k; cbn; [reflexivity|]. rewrite N.eqb_refl. exact IHk. Qed.

Lemma all_eq_is_repeat m : forall l, all_eq m l = true -> l = repeat m (length l).
Proof.
  induction l as [|a q IH]; intros H; [reflexivity|]. cbn in H. apply andb_true_iff in H. destruct H as [H1 H2].
  apply N.eqb_eq in H1. subst a. cbn [length repeat]. f_equal. apply IH; exact H2.
Qed.

Lemma mk_stage_good kd : match kd with KLie _ _ => True | _ => good (mk_stage kd) end.
Proof.
  destruct kd as [k m|k m| | |k m]; [| | | |exact I]; constructor; cbn [mk_stage t_fwd t_inv t_max]; try (intros; lia).
  - intros x cap y H. destruct (cap <? length x + k); [discriminate|]. inversion H; subst. rewrite app_length, repeat_length.
    split; [lia|]. intros Hx Hn. apply app_eq_nil in Hn. destruct Hn as [_ Hn]. contradiction.
  - intros x cap y H cap' Hc. destruct (cap <? length x + k); [discriminate|]. inversion H; subst.
    rewrite app_length, repeat_length.
    replace (k + length x <? k) with false by (symmetry; apply Nat.ltb_ge; lia).
    rewrite firstn_app, repeat_length, Nat.sub_diag. cbn [firstn]. rewrite app_nil_r.
    rewrite firstn_all2 by (rewrite repeat_length; lia). rewrite all_eq_repeat. cbn [negb orb].
    replace (cap' <? k + length x - k) with false by (symmetry; apply Nat.ltb_ge; lia).
    rewrite skipn_app, repeat_length, Nat.sub_diag. rewrite skipn_all2 by (rewrite repeat_length; lia). reflexivity.
  - intros x cap y H. destruct ((length x <=? k) || negb (all_eq m (firstn k x)) || (cap <? length x - k)) eqn:E; [discriminate|]. inversion H; subst.
    apply orb_false_iff in E. destruct E as [E _]. apply orb_false_iff in E. destruct E as [E _]. apply Nat.leb_gt in E. rewrite skipn_length. split; [lia|].
    intros _ Hn. apply (f_equal (@length N)) in Hn. rewrite skipn_length in Hn. cbn in Hn. lia.
  - intros x cap y H cap' Hc. destruct ((length x <=? k) || negb (all_eq m (firstn k x)) || (cap <? length x - k)) eqn:E; [discriminate|]. inversion H; subst.
    apply orb_false_iff in E. destruct E as [E _]. apply orb_false_iff in E. destruct E as [E1 E2]. apply Nat.leb_gt in E1. apply negb_false_iff in E2.
    rewrite skipn_length. replace (cap' <? length x - k + k) with false by (symmetry; apply Nat.ltb_ge; lia).
    f_equal. apply all_eq_is_repeat in E2. rewrite firstn_length in E2. replace (Nat.min k (length x)) with k in E2 by lia.
    rewrite <- E2. apply firstn_skipn.
  - intros x cap y H. destruct (cap <? length x); [discriminate|]. inversion H; subst. rewrite rev_length. split; [lia|].
    intros Hx Hn. apply (f_equal (@rev N)) in Hn. rewrite rev_involutive in Hn. cbn in Hn. contradiction.
  - intros x cap y H cap' Hc. destruct (cap <? length x); [discriminate|]. inversion H; subst. rewrite rev_length.
    replace (cap' <? length x) with false by (symmetry; apply Nat.ltb_ge; lia). rewrite rev_involutive. reflexivity.
  - intros x cap y H. discriminate.
  - intros x cap y H. discriminate.
Qed.
