(* Writer and reader of the bit streams are exact mirrors (C14): whatever is written with
   WriteBit / WriteBits and closed, read back from the sink's bytes with the same widths - through
   any chunk schedule of the source and any buffer sizes on both sides - gives the written values. *)
From Coq Require Import List NArith ZArith Lia Bool ZifyN ZifyNat ZifyBool.
From KV Require Import Model.OutBS Model.InBS Lib.Bits Proofs.OutBSProofs Proofs.BinCoderProofs Proofs.InBSProofs.
Import ListNotations.
Open Scope N_scope.

Ltac Zify.zify_post_hook ::= idtac.
Local Arguments N.pow : simpl never.
Local Arguments N.div : simpl never.
Local Arguments N.modulo : simpl never.
Local Arguments N.mul : simpl never.
Local Arguments N.sub : simpl never.
Local Arguments N.add : simpl never.

Definition op_val (o : wop) : N := match o with WBit b => b mod 2 | WBits v c => v mod 2 ^ c end.
Definition op_size (o : wop) : N := match o with WBit _ => 1 | WBits _ c => c end.

Lemma bv_app_eq acc o : bv_app acc o = (fst acc * 2 ^ op_size o + op_val o, snd acc + op_size o).
Proof. destruct o; cbn [bv_app op_size op_val]; [change (2 ^ 1) with 2|]; reflexivity. Qed.

Lemma op_val_lt o : op_val o < 2 ^ op_size o.
Proof. destruct o; cbn [op_val op_size]; apply N.mod_lt; [discriminate|apply N.pow_nonzero; discriminate]. Qed.

(* the written bit vector, built from the right *)
Fixpoint bvs (ops : list wop) : N * N :=
  match ops with
  | [] => (0, 0)
  | o :: t => (op_val o * 2 ^ snd (bvs t) + fst (bvs t), op_size o + snd (bvs t))
  end.

Lemma bvs_lt ops : fst (bvs ops) < 2 ^ snd (bvs ops).
Proof.
  induction ops as [|o t IH]; cbn [bvs fst snd]; [change (2 ^ 0) with 1; lia|].
  pose proof (op_val_lt o) as Hv. rewrite N.pow_add_r. pose proof (pow2_pos (snd (bvs t))). nia.
Qed.

Lemma fold_bvs : forall ops V0 L0,
  fold_left bv_app ops (V0, L0) = (V0 * 2 ^ snd (bvs ops) + fst (bvs ops), L0 + snd (bvs ops)).
Proof.
  induction ops as [|o t IH]; intros V0 L0; cbn [fold_left bvs fst snd].
  - change (2 ^ 0) with 1. f_equal; lia.
  - rewrite bv_app_eq. cbn [fst snd]. rewrite IH. rewrite N.pow_add_r. f_equal; lia.
Qed.

Definition rops_of (ops : list wop) : list rop :=
  flat_map (fun o => match o with WBit _ => [RBit] | WBits _ c => if c =? 0 then [] else [RBits c] end) ops.
Definition vals_of (ops : list wop) : list (option N) :=
  flat_map (fun o => match o with WBit b => [Some (b mod 2)] | WBits v c => if c =? 0 then [] else [Some (v mod 2 ^ c)] end) ops.

Lemma rops_ok ops : Forall wop_ok ops -> Forall rop_ok (rops_of ops).
Proof.
  induction 1 as [|o t Ho Ht IH]; [constructor|]. unfold rops_of. cbn [flat_map]. apply Forall_app. split; [|exact IH].
  destruct o as [b|v c]; [repeat constructor|]. destruct (c =? 0) eqn:E; [constructor|]. apply N.eqb_neq in E.
  constructor; [|constructor]. cbn [rop_ok wop_ok] in *. lia.
Qed.

Lemma spec_step val c Vt Lt P p : 1 <= c -> val < 2 ^ c -> Vt < 2 ^ Lt -> p < 2 ^ P ->
  let U := (val * 2 ^ Lt + Vt) * 2 ^ P + p in
  let T := c + Lt + P in
  (T <? c) = false /\ U / 2 ^ (T - c) = val /\ U mod 2 ^ (T - c) = Vt * 2 ^ P + p /\ T - c = Lt + P.
Proof.
  intros Hc Hv HV Hp U T.
  assert (Ed : T - c = Lt + P) by (unfold T; lia).
  assert (Hlow : Vt * 2 ^ P + p < 2 ^ (Lt + P)) by (rewrite N.pow_add_r; pose proof (pow2_pos P); nia).
  assert (EU : U = (Vt * 2 ^ P + p) + val * 2 ^ (Lt + P)) by (unfold U; rewrite N.pow_add_r; lia).
  assert (Hnz : 2 ^ (Lt + P) <> 0) by (apply N.pow_nonzero; discriminate).
  split; [apply N.ltb_ge; unfold T; lia|]. rewrite Ed, EU. split; [|split; [|reflexivity]].
  - rewrite N.div_add by exact Hnz. rewrite N.div_small by exact Hlow. reflexivity.
  - rewrite N.mod_add by exact Hnz. apply N.mod_small. exact Hlow.
Qed.

Lemma spec_on_bvs : forall ops P p, p < 2 ^ P ->
  spec_rops (fst (bvs ops) * 2 ^ P + p) (snd (bvs ops) + P) (rops_of ops) = vals_of ops.
Proof.
  induction ops as [|o t IH]; intros P p Hp; [reflexivity|].
  unfold rops_of, vals_of. cbn [flat_map bvs fst snd]. fold (rops_of t). fold (vals_of t).
  pose proof (bvs_lt t) as Ht.
  destruct o as [b|v c]; cbn [op_val op_size].
  - cbn [app spec_rops rop_size].
    destruct (spec_step (b mod 2) 1 (fst (bvs t)) (snd (bvs t)) P p ltac:(lia) ltac:(change (2 ^ 1) with 2; apply N.mod_lt; discriminate) Ht Hp) as (S1 & S2 & S3 & S4).
    cbv zeta in S1, S2, S3, S4. rewrite S1, S2, S3, S4. f_equal. apply IH. exact Hp.
  - destruct (c =? 0) eqn:E.
    + apply N.eqb_eq in E. subst c. cbn [app]. change (2 ^ 0) with 1. rewrite N.mod_1_r, N.mul_0_l, N.add_0_l, N.add_0_l. apply IH. exact Hp.
    + apply N.eqb_neq in E. cbn [app spec_rops rop_size].
      destruct (spec_step (v mod 2 ^ c) c (fst (bvs t)) (snd (bvs t)) P p ltac:(lia) ltac:(apply N.mod_lt; apply N.pow_nonzero; discriminate) Ht Hp) as (S1 & S2 & S3 & S4).
      cbv zeta in S1, S2, S3, S4. rewrite S1, S2, S3, S4. f_equal. apply IH. exact Hp.
Qed.

(* ---------- the sink receives bytes ---------- *)
Definition obok (s : obs) : Prop := bytes_ok (o_out s) /\ bytes_ok (o_buf s).

Lemma flush_obok s s' e : obok s -> flush healthy s = (s', e) -> obok s'.
Proof.
  intros [H1 H2]. unfold flush, healthy. destruct (o_closed s); [intros H; inversion H; subst; split; [exact H1|constructor]|].
  destruct (0 <? o_pos s); intros H; inversion H; subst; [|split; assumption].
  split; cbn [o_out o_buf]; [apply Forall_app; split; assumption|constructor].
Qed.

Lemma push_obok s v s' e : obok s -> push healthy s v = (s', e) -> obok s'.
Proof.
  intros [H1 H2]. unfold push. destruct (o_size s <? o_pos s + 8); [intros H; inversion H; subst; split; assumption|].
  assert (Hb : obok (set_buf s (o_buf s ++ be8 v))).
  { split; cbn [set_buf o_out o_buf]; [exact H1|]. apply Forall_app. split; [exact H2|apply be_bytes_ok]. }
  destruct (o_size (set_buf s (o_buf s ++ be8 v)) - 8 <=? o_pos (set_buf s (o_buf s ++ be8 v))).
  - apply flush_obok. exact Hb.
  - intros H; inversion H; subst. exact Hb.
Qed.

Lemma set_acc_obok s a c : obok s -> obok (set_acc s a c).
Proof. intros H; exact H. Qed.

Lemma run_wop_obok s o s' e : obok s -> run_wop s o = (s', e) -> obok s'.
Proof.
  intros Hs. destruct o as [b|v c]; cbn [run_wop].
  - unfold write_bit. destruct (o_avail s <=? 1).
    + destruct (push healthy s (N.lor (o_cur s) (N.land b 1))) as [s1 [|]] eqn:E; intros H; inversion H; subst;
        [eapply push_obok; eauto|apply set_acc_obok; eapply push_obok; eauto].
    + intros H; inversion H; subst. apply set_acc_obok. exact Hs.
  - unfold write_bits. destruct (64 <? c); [intros H; inversion H; subst; exact Hs|].
    destruct (o_avail s <=? c).
    + match goal with |- context [push healthy ?a ?b] => destruct (push healthy a b) as [s1 [|]] eqn:E end; intros H; inversion H; subst;
        [eapply push_obok; [|exact E]; apply set_acc_obok; exact Hs|apply set_acc_obok; eapply push_obok; [|exact E]; apply set_acc_obok; exact Hs].
    + intros H; inversion H; subst. apply set_acc_obok. apply set_acc_obok. exact Hs.
Qed.

Lemma run_wops_obok : forall ops s s' e, obok s -> run_wops s ops = (s', e) -> obok s'.
Proof.
  induction ops as [|o t IH]; intros s s' e Hs H; cbn [run_wops] in H; [inversion H; subst; exact Hs|].
  destruct (run_wop s o) as [s1 [|]] eqn:E; [inversion H; subst; eapply run_wop_obok; eauto|].
  eapply IH; [|exact H]. eapply run_wop_obok; eauto.
Qed.

Lemma spill_ok cur : forall n shift buf, bytes_ok buf -> bytes_ok (spill n shift buf cur).
Proof.
  induction n as [|n IH]; intros shift buf Hb; cbn [spill]; [exact Hb|]. apply IH. apply Forall_app. split; [exact Hb|].
  constructor; [|constructor]. change 255 with (N.ones 8). rewrite N.land_ones. apply N.mod_lt. discriminate.
Qed.

Lemma close_obok s s' e : obok s -> close healthy s = (s', e) -> bytes_ok (o_out s').
Proof.
  intros [H1 H2]. unfold close. destruct (o_closed s); [intros H; inversion H; subst; exact H1|].
  destruct (o_size s <? o_pos s + (64 - o_avail s + 7) / 8); [intros H; inversion H; subst; exact H1|].
  match goal with |- context [flush healthy ?a] => destruct (flush healthy a) as [s2 [|]] eqn:E end.
  - intros H; inversion H; subst. cbn [o_out]. eapply flush_obok; [|exact E]. split; cbn [o_out o_buf]; [exact H1|apply spill_ok; exact H2].
  - intros H; inversion H; subst. cbn [o_out]. eapply flush_obok; [|exact E]. split; cbn [o_out o_buf]; [exact H1|apply spill_ok; exact H2].
Qed.

(* ---------- the mirror ---------- *)
Theorem bitstream_mirror wbuf rbuf sched ops : 16 <= wbuf -> 0 < rbuf -> Forall wop_ok ops ->
  exists s1 s2, run_wops (new_obs wbuf) ops = (s1, false) /\ close healthy s1 = (s2, false) /\
    run_rops (new_ibs rbuf (mkSrc (o_out s2) sched None 0)) (rops_of ops) = vals_of ops.
Proof.
  intros Hw Hr Hok.
  destruct (writer_image wbuf ops Hw Hok) as (s1 & s2 & pad & V & L & E1 & E2 & EV & Hcl & Hpad & Hlen & Himg & _).
  exists s1, s2. split; [exact E1|]. split; [exact E2|].
  assert (Hob : bytes_ok (o_out s2)).
  { eapply close_obok; [|exact E2]. eapply run_wops_obok; [|exact E1]. split; constructor. }
  destruct (reader_schedule_independent rbuf rbuf sched sched (o_out s2) (rops_of ops) Hr Hr Hob (rops_ok ops Hok)) as [_ Hs].
  rewrite Hs, Himg, Hlen.
  rewrite fold_bvs in EV. cbn [fst snd] in EV. rewrite N.mul_0_l, !N.add_0_l in EV. inversion EV; subst V L.
  replace (fst (bvs ops) * 2 ^ pad) with (fst (bvs ops) * 2 ^ pad + 0) by lia.
  apply spec_on_bvs. apply pow2_pos.
Qed.
