(* The table a range-codec chunk is encoded with is a normalized table (C16: NormalizeFrequencies on the chunk's histogram),
   so the header theorem applies to every chunk: what RangeEncoder writes in front of a chunk is decoded by RangeDecoder to
   exactly the frequency table the encoder uses, for every non-empty chunk of bytes. *)
From Coq Require Import List NArith ZArith Lia Bool Sorted Arith ZifyN ZifyNat ZifyBool.
From KV Require Import Lib.ListX Model.OutBS Model.InBS Model.Container Model.Normalize Model.Alphabet Model.RangeCodec Lib.Bits
  Proofs.BinCoderProofs Proofs.NormalizeProofs Proofs.ArrayProofs Proofs.ReadArrayProofs Proofs.MirrorArrayProofs Proofs.ContainerProofs
  Proofs.AlphabetProofs Proofs.RangeHeaderProofs.
Import ListNotations.
Ltac Zify.zify_post_hook ::= idtac.
Local Arguments N.pow : simpl never.
Local Arguments Z.pow : simpl never.

(* ---------- the histogram ---------- *)
Definition cnt (s : N) (l : list N) : nat := length (filter (N.eqb s) l).

Lemma histogram_eq buf : histogram buf = map (fun s => Z.of_nat (cnt s buf)) (iota 256).
Proof. reflexivity. Qed.

Lemma sumz_map_add {A} (f g : A -> Z) l : sumz (map (fun x => (f x + g x)%Z) l) = (sumz (map f l) + sumz (map g l))%Z.
Proof. induction l as [|x t IH]; [reflexivity|]. cbn [map sumz]. rewrite IH. lia. Qed.

Lemma sum_indicator b : forall n, sumz (map (fun s => if N.eqb s b then 1%Z else 0%Z) (iota n)) = if N.ltb b (N.of_nat n) then 1%Z else 0%Z.
Proof.
  induction n as [|n IH]; [change (N.of_nat 0) with 0%N; rewrite (proj2 (N.ltb_ge b 0)) by apply N.le_0_l; reflexivity|].
  rewrite iota_S, map_app, sumz_app, IH. cbn [map sumz].
  rewrite Nat2N.inj_succ.
  destruct (N.ltb_spec b (N.of_nat n)); destruct (N.eqb_spec (N.of_nat n) b); destruct (N.ltb_spec b (N.succ (N.of_nat n))); lia.
Qed.

Lemma histogram_sum buf : bytes_ok buf -> sumz (histogram buf) = Z.of_nat (length buf).
Proof.
  intros Hb. rewrite histogram_eq. induction buf as [|b t IH].
  { cbn [length]. generalize (iota 256). intros l. induction l as [|x u IHl]; [reflexivity|]. cbn [map sumz]. rewrite IHl. reflexivity. }
  apply Forall_inv in Hb as Hb0. apply Forall_inv_tail in Hb as Hbt.
  assert (E : forall s, Z.of_nat (cnt s (b :: t)) = ((if N.eqb s b then 1 else 0) + Z.of_nat (cnt s t))%Z).
  { intros s. unfold cnt. cbn [filter]. destruct (N.eqb s b); cbn [length]; lia. }
  rewrite (map_ext _ _ E), sumz_map_add, (IH Hbt), (sum_indicator b 256).
  replace (N.ltb b (N.of_nat 256)) with true by (symmetry; apply N.ltb_lt; change (N.of_nat 256) with 256%N; exact Hb0).
  cbn [length]. lia.
Qed.

Lemma histogram_len buf : length (histogram buf) = 256%nat.
Proof. rewrite histogram_eq, map_length. unfold iota. rewrite map_length, seq_length. reflexivity. Qed.

Lemma histogram_nonneg buf : Forall (fun x => (0 <= x)%Z) (histogram buf).
Proof. rewrite histogram_eq. apply Forall_forall. intros x Hx. apply in_map_iff in Hx. destruct Hx as (s & <- & _). lia. Qed.

Lemma histogram_get buf j : (j < 256)%nat -> getz (histogram buf) j = Z.of_nat (cnt (N.of_nat j) buf).
Proof.
  intros Hj. unfold getz. rewrite histogram_eq. rewrite (nth_indep _ 0%Z (Z.of_nat (cnt 0%N buf))) by (rewrite map_length; unfold iota; rewrite map_length, seq_length; exact Hj).
  rewrite (map_nth (fun s => Z.of_nat (cnt s buf)) (iota 256) 0%N j). f_equal. f_equal. unfold iota.
  rewrite (nth_indep _ 0%N (N.of_nat 0)) by (rewrite map_length, seq_length; exact Hj). rewrite map_nth, seq_nth by exact Hj. reflexivity.
Qed.

Lemma lower_lr_bounds len : forall fuel lr, (8 <= lr <= 12)%N -> (8 <= lower_lr fuel lr len <= 12)%N.
Proof.
  induction fuel as [|f IH]; intros lr H; cbn [lower_lr]; [exact H|].
  destruct ((8 <? lr)%N && (len <? 2 ^ lr)%N) eqn:E; [|exact H]. apply andb_true_iff in E. destruct E as [E _]. apply N.ltb_lt in E.
  apply IH. lia.
Qed.

(* ---------- from the normalized table (Z, nat) to the table of the header (N) ---------- *)
Definition tab_of (frz : list Z) : list N := map Z.to_N frz.
Definition alpha_of (al : list nat) : list N := map N.of_nat al.

Lemma fq_tab frz (j : nat) : fq (tab_of frz) (N.of_nat j) = Z.to_N (getz frz j).
Proof. unfold fq, tab_of, getz. rewrite Nat2N.id. change 0%N with (Z.to_N 0). apply map_nth. Qed.

Fixpoint sumN (l : list N) : N := match l with [] => 0%N | x :: t => (x + sumN t)%N end.

Lemma ssum_sumN fr l : ssum fr l = sumN (map (fq fr) l).
Proof. induction l as [|x t IH]; [reflexivity|]. cbn [ssum fold_right map sumN]. fold (ssum fr t). rewrite IH. reflexivity. Qed.

Lemma sumN_filter {A} (p : A -> bool) (g : A -> N) l : (forall x, In x l -> p x = false -> g x = 0%N) ->
  sumN (map g (filter p l)) = sumN (map g l).
Proof.
  induction l as [|x t IH]; intros H; [reflexivity|]. cbn [filter map sumN].
  destruct (p x) eqn:E; cbn [map sumN]; rewrite IH by (intros y Hy; apply H; right; exact Hy); [reflexivity|].
  rewrite (H x (or_introl eq_refl) E). lia.
Qed.

Lemma map_nth_seq {A} (d : A) l : map (fun j => nth j l d) (seq 0 (length l)) = l.
Proof.
  apply (nth_ext _ _ d d); [rewrite map_length, seq_length; reflexivity|].
  intros j Hj. rewrite map_length, seq_length in Hj.
  rewrite (nth_indep _ d (nth 0 l d)) by (rewrite map_length, seq_length; exact Hj).
  rewrite (map_nth (fun j => nth j l d) (seq 0 (length l)) 0%nat j). rewrite seq_nth by exact Hj. reflexivity.
Qed.

Lemma sumN_toN l : Forall (fun x => (0 <= x)%Z) l -> sumN (map Z.to_N l) = Z.to_N (sumz l).
Proof.
  induction 1 as [|x t Hx Ht IH]; [reflexivity|]. cbn [map sumN sumz]. rewrite IH.
  pose proof (sumz_nonneg t Ht). lia.
Qed.

Lemma sorted_map_of_nat al : StronglySorted lt al -> StronglySorted N.lt (alpha_of al).
Proof.
  induction 1 as [|x t Hs IH Hx]; [constructor|]. cbn [alpha_of map]. constructor; [exact IH|].
  unfold alpha_of. rewrite Forall_map. eapply Forall_impl; [|exact Hx]. intros y Hy. cbv beta. lia.
Qed.

Theorem range_chunk_table buf : buf <> [] -> bytes_ok buf ->
  let len := N.of_nat (length buf) in let lr := lower_lr 8 LOG_RANGE len in
  exists frz al hops, normalize (histogram buf) (Z.of_N len) (2 ^ Z.of_N lr) = Some (frz, al) /\
    header_ops lr (alpha_of al) (tab_of frz) = Some hops /\
    (8 <= lr <= 15)%N /\ StronglySorted N.lt (alpha_of al) /\ alpha_of al <> [] /\ table_ok lr (alpha_of al) (tab_of frz) /\
    (lr <= 12)%N /\ sumN (tab_of frz) = (2 ^ lr)%N /\ Forall (fun b => In b (alpha_of al)) buf.
Proof.
  intros Hne Hb len lr.
  assert (Hlr : (8 <= lr <= 12)%N) by (apply lower_lr_bounds; unfold LOG_RANGE; lia).
  assert (Hscale : (256 <= 2 ^ Z.of_N lr <= 65536)%Z /\ Z.to_N (2 ^ Z.of_N lr) = (2 ^ lr)%N).
  { assert (C : lr = 8%N \/ lr = 9%N \/ lr = 10%N \/ lr = 11%N \/ lr = 12%N) by lia.
    destruct C as [E | [E | [E | [E | E]]]]; rewrite E; vm_compute; (split; [split; discriminate|reflexivity]). }
  destruct Hscale as [Hsc Hsc2].
  assert (Hlenpos : (0 < Z.of_N len)%Z) by (unfold len; destruct buf; [congruence|cbn [length]; lia]).
  destruct (normalize_valid (histogram buf) (Z.of_N len) (2 ^ Z.of_N lr) (histogram_len buf) (histogram_nonneg buf)
              ltac:(rewrite (histogram_sum buf Hb); unfold len; lia) Hlenpos Hsc) as (frz & al & Hn & Hsum & Hflen & Hrel & Hal & Hsorted).
  assert (Hin : forall j, In j al <-> (j < 256)%nat /\ getz (histogram buf) j <> 0%Z).
  { intros j. rewrite Hal, filter_In, in_seq, negb_true_iff, Z.eqb_neq. split; [intros [[_ X] Y]; auto|intros [X Y]; split; [lia|exact Y]]. }
  assert (Hnn : forall j, (j < 256)%nat -> (0 <= getz frz j)%Z).
  { intros j Hj. destruct (Hrel j Hj) as [R1 R2]. pose proof (histogram_nonneg buf) as Hh. rewrite Forall_forall in Hh.
    assert (0 <= getz (histogram buf) j)%Z by (apply Hh; unfold getz; apply nth_In; rewrite histogram_len; exact Hj).
    destruct (Z.eq_dec (getz (histogram buf) j) 0) as [E|E]; [rewrite (R1 E); lia|specialize (R2 ltac:(lia)); lia]. }
  assert (Htab : table_ok lr (alpha_of al) (tab_of frz)).
  { split; [unfold tab_of; rewrite map_length; exact Hflen|]. split; [|split].
    - unfold alpha_of. rewrite Forall_map. apply Forall_forall. intros j Hj. apply Hin in Hj. destruct Hj as [Hj Hz].
      split; [lia|]. rewrite fq_tab. destruct (Hrel j Hj) as [_ R2].
      pose proof (histogram_nonneg buf) as Hh. rewrite Forall_forall in Hh.
      assert (0 <= getz (histogram buf) j)%Z by (apply Hh; unfold getz; apply nth_In; rewrite histogram_len; exact Hj).
      specialize (R2 ltac:(lia)). lia.
    - rewrite ssum_sumN. unfold alpha_of. rewrite map_map.
      rewrite (map_ext (fun j => fq (tab_of frz) (N.of_nat j)) (fun j => Z.to_N (getz frz j))) by (intros j; apply fq_tab).
      rewrite Hal. rewrite sumN_filter.
      + rewrite <- Hflen. rewrite <- (map_map (fun j => getz frz j) Z.to_N). unfold getz. rewrite map_nth_seq.
        rewrite sumN_toN; [rewrite Hsum; exact Hsc2|]. apply Forall_forall. intros x Hx. destruct (In_nth _ _ 0%Z Hx) as (j & Hj & <-).
        rewrite Hflen in Hj. exact (Hnn j Hj).
      + intros j Hj E. apply in_seq in Hj. apply negb_false_iff, Z.eqb_eq in E. destruct (Hrel j ltac:(lia)) as [R1 _]. rewrite (R1 E). reflexivity.
    - intros j Hj Hni. unfold tab_of. change 0%N with (Z.to_N 0). rewrite map_nth. fold (getz frz j).
      destruct (Z.eq_dec (getz (histogram buf) j) 0) as [E|E]; [destruct (Hrel j Hj) as [R1 _]; rewrite (R1 E); reflexivity|].
      exfalso. apply Hni. unfold alpha_of. apply in_map. apply Hin. auto. }
  assert (Hane : alpha_of al <> []).
  { destruct buf as [|b t]; [congruence|]. apply Forall_inv in Hb as Hb0.
    assert (In (N.to_nat b) al).
    { apply Hin. split; [lia|]. rewrite histogram_get by lia. rewrite N2Nat.id. unfold cnt. cbn [filter]. rewrite N.eqb_refl. cbn [length]. lia. }
    intros E. unfold alpha_of in E. apply map_eq_nil in E. rewrite E in H. contradiction. }
  assert (Hhops : exists hops, header_ops lr (alpha_of al) (tab_of frz) = Some hops).
  { unfold header_ops. destruct (encode_alphabet (alpha_of al)) as [aops|] eqn:Ea; [destruct (Nat.eqb (length (alpha_of al)) 0); eexists; reflexivity|].
    exfalso. unfold encode_alphabet in Ea.
    assert (Hl : (length (alpha_of al) <= 256)%nat).
    { unfold alpha_of. rewrite map_length, Hal. etransitivity; [apply filter_len_le|rewrite seq_length; apply le_n]. }
    replace (Nat.ltb 256 (length (alpha_of al))) with false in Ea by (symmetry; apply Nat.ltb_ge; exact Hl).
    destruct (Nat.eqb (length (alpha_of al)) 0); [discriminate|]. destruct (Nat.eqb (length (alpha_of al)) 256); [discriminate|].
    replace (negb (forallb (fun a : N => (a <? 256)%N) (alpha_of al))) with false in Ea; [discriminate|].
    symmetry. apply negb_false_iff. apply forallb_forall. intros a Ha. unfold alpha_of in Ha. apply in_map_iff in Ha. destruct Ha as (j & <- & Hj).
    apply Hin in Hj. apply N.ltb_lt. lia. }
  destruct Hhops as [hops Hh].
  assert (Htot : sumN (tab_of frz) = (2 ^ lr)%N).
  { unfold tab_of. rewrite sumN_toN; [rewrite Hsum; exact Hsc2|]. apply Forall_forall. intros x Hx. destruct (In_nth _ _ 0%Z Hx) as (j & Hj & <-).
    rewrite Hflen in Hj. exact (Hnn j Hj). }
  assert (Hbuf : Forall (fun b => In b (alpha_of al)) buf).
  { apply Forall_forall. intros b Hbin. pose proof (proj1 (Forall_forall _ _) Hb b Hbin) as Hb256. cbv beta in Hb256.
    assert (Hj : In (N.to_nat b) al).
    { apply Hin. split; [lia|]. rewrite histogram_get by lia. rewrite N2Nat.id. unfold cnt.
      assert (Hf : In b (filter (N.eqb b) buf)) by (apply filter_In; split; [exact Hbin|apply N.eqb_refl]).
      destruct (filter (N.eqb b) buf); [contradiction|cbn [length]; lia]. }
    unfold alpha_of. rewrite <- (N2Nat.id b). apply in_map. exact Hj. }
  exists frz, al, hops. split; [exact Hn|]. split; [exact Hh|]. split; [lia|]. split; [apply sorted_map_of_nat; exact Hsorted|]. split; [exact Hane|].
  split; [exact Htab|]. split; [lia|]. split; [exact Htot|exact Hbuf].
Qed.

(* what RangeEncoder writes in front of ANY non-empty chunk of bytes is decoded by RangeDecoder to the table the encoder uses *)
Theorem range_chunk_header_roundtrip wbuf rbuf sched buf fr0 rest :
  buf <> [] -> bytes_ok buf -> length fr0 = 256%nat ->
  (40 <= wbuf)%N -> (wbuf mod 8 = 0)%N -> (0 < rbuf)%N -> (rbuf mod 8 = 0)%N -> Forall aop_ok rest ->
  let lr := lower_lr 8 LOG_RANGE (N.of_nat (length buf)) in
  exists frz al hops s1 s2 s',
    normalize (histogram buf) (Z.of_N (N.of_nat (length buf))) (2 ^ Z.of_N lr) = Some (frz, al) /\
    header_ops lr (alpha_of al) (tab_of frz) = Some hops /\
    run_aops (new_obs wbuf) (map conv hops ++ rest) = (s1, false) /\ OutBS.close OutBSProofs.healthy s1 = (s2, false) /\
    decode_header (new_ibs rbuf (mkSrc (o_out s2) sched None 0)) fr0 = (s', HFreqs (alpha_of al) (tab_of frz) lr) /\
    run_arops s' (arops_of rest) = avals_of rest.
Proof.
  intros Hne Hb Hl0 Hw Hw8 Hr Hr8 Hrest lr.
  destruct (range_chunk_table buf Hne Hb) as (frz & al & hops & Hn & Hh & Hlr & Hs & Hane & Htab & _).
  destruct (range_header_stream_roundtrip wbuf rbuf sched _ _ _ hops fr0 rest Hlr Hs Hane Htab Hl0 Hh Hw Hw8 Hr Hr8 Hrest) as (s1 & s2 & s' & E1 & E2 & Ed & Er).
  exists frz, al, hops, s1, s2, s'. auto 8.
Qed.
