(* Proof that the model of NormalizeFrequencies always yields a valid table (C16). *)
From Coq Require Import List ZArith Bool Lia Sorted.
From KV Require Import Lib.ListX Model.Normalize.
Import ListNotations.
Open Scope Z_scope.

(* relation between an original count and its scaled frequency *)
Definition rel (o f : Z) : Prop := (o = 0 /\ f = 0) \/ (0 < o /\ 1 <= f).

Definition Rel (freqs fr : list Z) : Prop :=
  length fr = 256%nat /\ forall j, (j < 256)%nat -> rel (getz freqs j) (getz fr j).

Lemma Rel_upd freqs fr j v :
  Rel freqs fr -> (j < 256)%nat -> 1 <= getz fr j -> 1 <= v -> Rel freqs (upd fr j v).
Proof.
  intros [Hl Hr] Hj Hf Hv. split; [rewrite upd_length; exact Hl|].
  intros k Hk. destruct (Nat.eq_dec j k) as [->|Hne].
  - rewrite getz_upd_same by lia. destruct (Hr k Hk) as [[_ H0]|[Ho _]]; [lia|]. right; lia.
  - rewrite getz_upd_other by exact Hne. apply Hr; exact Hk.
Qed.

Ltac sp := repeat match goal with |- _ /\ _ => split end.

(* ---------- the spreading pass ---------- *)

Lemma pass_spec freqs thr inc : 1 <= thr -> -1 <= inc ->
  forall al fr delta adj,
  Rel freqs fr -> (forall i, In i al -> (i < 256)%nat) -> 1 <= delta ->
  match pass thr inc al fr delta adj with
  | (fr', delta', adj') =>
      Rel freqs fr' /\ sumz fr' = sumz fr + inc * (delta - delta') /\
      adj' - adj = delta - delta' /\ 0 <= delta' <= delta /\
      (adj' = adj -> fr' = fr /\ forall i, In i al -> getz fr i <= thr)
  end.
Proof.
  intros Hthr Hinc. induction al as [|idx t IH]; intros fr delta adj HR Hal Hd; cbn [pass].
  - sp; try lia; auto. intros _. split; [reflexivity|]. intros i Hi; destruct Hi.
  - destruct (getz fr idx <=? thr) eqn:E.
    + specialize (IH fr delta adj HR (fun i Hi => Hal i (or_intror Hi)) Hd).
      destruct (pass thr inc t fr delta adj) as [[fr' delta'] adj'].
      destruct IH as (R1 & S1 & A1 & D1 & N1). sp; try assumption; try lia.
      intros Ha. destruct (N1 Ha) as [Hfr Hle]. split; [exact Hfr|].
      intros i [<-|Hi]; [lia|]. apply Hle; assumption.
    + assert (Hidx : (idx < 256)%nat) by (apply Hal; left; reflexivity).
      assert (Hg : thr < getz fr idx) by lia.
      assert (HR' : Rel freqs (upd fr idx (getz fr idx + inc))) by (apply Rel_upd; auto; lia).
      assert (Hs : sumz (upd fr idx (getz fr idx + inc)) = sumz fr + inc).
      { rewrite sumz_upd by (destruct HR as [-> _]; exact Hidx). lia. }
      destruct (delta - 1 =? 0) eqn:E0.
      * sp; try assumption; try lia.
      * specialize (IH (upd fr idx (getz fr idx + inc)) (delta - 1) (adj + 1) HR'
                       (fun i Hi => Hal i (or_intror Hi)) ltac:(lia)).
        destruct (pass thr inc t (upd fr idx (getz fr idx + inc)) (delta - 1) (adj + 1))
          as [[fr' delta'] adj'].
        destruct IH as (R1 & S1 & A1 & D1 & N1). sp; try assumption; try lia.
Qed.

Lemma rounds_spec freqs inc : -1 <= inc ->
  forall n al fr delta,
  Rel freqs fr -> (forall i, In i al -> (i < 256)%nat) -> 0 <= delta ->
  match rounds n inc al fr delta with
  | (fr', delta') =>
      Rel freqs fr' /\ sumz fr' + inc * delta' = sumz fr + inc * delta /\ 0 <= delta' <= delta
  end.
Proof.
  intros Hinc. induction n as [|m IH]; intros al fr delta HR Hal Hd; cbn [rounds].
  - sp; try lia; auto.
  - destruct (delta >? 0) eqn:E; [|sp; try lia; auto].
    pose proof (pass_spec freqs 2 inc ltac:(lia) Hinc al fr delta 0 HR Hal ltac:(lia)) as HP.
    destruct (pass 2 inc al fr delta 0) as [[fr' delta'] adj'].
    destruct HP as (R1 & S1 & A1 & D1 & _).
    destruct (adj' =? 0).
    + sp; try assumption; try lia.
    + specialize (IH al fr' delta' R1 Hal ltac:(lia)).
      destruct (rounds m inc al fr' delta') as [fr'' delta''].
      destruct IH as (R2 & S2 & D2). sp; try assumption; try lia.
Qed.

Lemma sumz_le_length l : (forall j, getz l j <= 1) -> sumz l <= Z.of_nat (length l).
Proof.
  induction l as [|x t IH]; intros H; simpl; [lia|].
  assert (x <= 1) by (apply (H O)).
  assert (sumz t <= Z.of_nat (length t)) by (apply IH; intros j; apply (H (S j))).
  lia.
Qed.

Lemma drain_spec freqs scale : 256 <= scale ->
  forall fuel al fr delta,
  Rel freqs fr -> (forall i, In i al -> (i < 256)%nat) ->
  (forall j, (j < 256)%nat -> 0 < getz freqs j -> In j al) ->
  0 <= delta -> (Z.to_nat delta <= fuel)%nat -> sumz fr - delta = scale ->
  match drain fuel al fr delta with
  | (fr', _) => Rel freqs fr' /\ sumz fr' = scale
  end.
Proof.
  intros Hsc. induction fuel as [|m IH]; intros al fr delta HR Hal Hall Hd Hf Hs; cbn [drain].
  - split; [assumption|lia].
  - destruct (delta >? 0) eqn:E; [|split; [assumption|lia]].
    pose proof (pass_spec freqs 1 (-1) ltac:(lia) ltac:(lia) al fr delta 0 HR Hal ltac:(lia)) as HP.
    destruct (pass 1 (-1) al fr delta 0) as [[fr' delta'] adj'].
    destruct HP as (R1 & S1 & A1 & D1 & N1).
    destruct (adj' =? 0) eqn:Ea.
    + (* no adjustment possible: every entry is <= 1, so the sum is <= 256 <= scale *)
      exfalso. destruct (N1 ltac:(lia)) as [-> Hle].
      destruct HR as [Hlen Hr].
      assert (sumz fr <= Z.of_nat (length fr)).
      { apply sumz_le_length. intros j.
        destruct (Nat.lt_ge_cases j 256) as [Hj|Hj].
        - destruct (Hr j Hj) as [[_ ->]|[Ho _]]; [lia|]. apply Hle, Hall; assumption.
        - unfold getz. rewrite nth_overflow by lia. lia. }
      rewrite Hlen in *. lia.
    + specialize (IH al fr' delta' R1 Hal Hall ltac:(lia) ltac:(lia) ltac:(lia)).
      exact IH.
Qed.

(* ---------- the scaling loop ---------- *)

Section Scale.
Variables (freqs : list Z) (total scale : Z).
Hypothesis Hlen : length freqs = 256%nat.
Hypothesis Hnn : Forall (fun x => 0 <= x) freqs.
Hypothesis Htot : total = sumz freqs.
Hypothesis Hpos : 0 < total.
Hypothesis Hsc : 256 <= scale <= 65536.

Lemma scaled_ge1 f : 1 <= f -> 1 <= scaled f total scale.
Proof.
  intros Hf. unfold scaled. destruct (f * scale <=? total) eqn:E; [lia|].
  rewrite Z.shiftr_div_pow2 by lia. change (2 ^ 1) with 2.
  apply Z.div_le_lower_bound; [lia|].
  assert (0 <= total / 2) by (apply Z.div_pos; lia). lia.
Qed.

Definition present (j : nat) : bool := negb (getz freqs j =? 0).

Record Inv (k : nat) (s : sstate) : Prop := {
  i_len : length (s_fr s) = 256%nat;
  i_lo : forall j, (j < k)%nat -> rel (getz freqs j) (getz (s_fr s) j);
  i_hi : forall j, (k <= j)%nat -> getz (s_fr s) j = getz freqs j;
  i_sum : sumz (s_fr s) - s_sum s = total - s_sf s;
  i_sf : s_sf s = total - sumz (skipn k freqs);
  i_al : rev (s_al s) = filter present (seq 0 k);
  i_alsum : s_sum s = sumz (map (getz (s_fr s)) (s_al s));
  i_im : (s_al s = [] /\ s_im s = O) \/ In (s_im s) (s_al s);
  i_stop : s_stop s = true -> forall j, (k <= j)%nat -> getz freqs j = 0
}.

Lemma sumz_skipn_S k : (k < 256)%nat ->
  sumz (skipn k freqs) = getz freqs k + sumz (skipn (S k) freqs).
Proof.
  intros Hk. unfold getz.
  assert (H : forall (l : list Z) n, (n < length l)%nat ->
              sumz (skipn n l) = nth n l 0 + sumz (skipn (S n) l)).
  { induction l as [|x t IH]; intros [|n] Hn; simpl in Hn; try lia.
    - reflexivity.
    - change (skipn (S n) (x :: t)) with (skipn n t).
      change (skipn (S (S n)) (x :: t)) with (skipn (S n) t).
      change (nth (S n) (x :: t) 0) with (nth n t 0).
      apply IH; lia. }
  apply H; lia.
Qed.

Lemma suffix_zero k : sumz (skipn k freqs) <= 0 -> forall j, (k <= j)%nat -> getz freqs j = 0.
Proof.
  intros Hs j Hj.
  assert (Hf : Forall (fun x => 0 <= x) (skipn k freqs)).
  { rewrite Forall_forall in *. intros x Hx. apply Hnn.
    rewrite <- (firstn_skipn k freqs). apply in_or_app; right; exact Hx. }
  assert (Hg : getz (skipn k freqs) (j - k) = getz freqs j).
  { rewrite getz_skipn. f_equal. lia. }
  pose proof (getz_le_sumz _ (j - k)%nat Hf). pose proof (getz_nonneg _ (j - k)%nat Hf). lia.
Qed.

Lemma map_getz_upd_notin l i v (al : list nat) :
  ~ In i al -> map (getz (upd l i v)) al = map (getz l) al.
Proof.
  intros H. apply map_ext_in. intros a Ha. apply getz_upd_other. intros ->. exact (H Ha).
Qed.

Lemma inv_step k s : (k < 256)%nat -> Inv k s -> Inv (S k) (scale_step total scale s k).
Proof.
  intros Hk I. destruct I as [L LO HI SUM SF AL ALS IM ST].
  assert (Hseq : filter present (seq 0 (S k)) =
                 filter present (seq 0 k) ++ (if present k then [k] else [])).
  { rewrite seq_S, filter_app. simpl. destruct (present k); reflexivity. }
  assert (Hfk : 0 <= getz freqs k) by (apply getz_nonneg; exact Hnn).
  assert (Hgk : getz (s_fr s) k = getz freqs k) by (apply HI; lia).
  assert (Hnoop : getz freqs k = 0 -> Inv (S k) s).
  { intros H0. constructor; auto.
    - intros j Hj. destruct (Nat.eq_dec j k) as [->|]; [|apply LO; lia].
      left; split; [exact H0|lia].
    - intros j Hj. apply HI; lia.
    - rewrite SF, (sumz_skipn_S k Hk). lia.
    - assert (Hp : present k = false) by (unfold present; rewrite H0; reflexivity).
      rewrite Hseq, AL, Hp, app_nil_r. reflexivity.
    - intros Hs j Hj. apply ST; [exact Hs|lia]. }
  unfold scale_step. destruct (s_stop s) eqn:Estop.
  { apply Hnoop. apply ST; [reflexivity|lia]. }
  destruct (getz (s_fr s) k =? 0) eqn:Ef0.
  { apply Hnoop. lia. }
  assert (Hf1 : 1 <= getz (s_fr s) k) by lia.
  pose proof (scaled_ge1 _ Hf1) as Hsc1.
  set (sc := scaled (getz (s_fr s) k) total scale) in *.
  assert (Hnotin : ~ In k (s_al s)).
  { intros Hin. apply in_rev in Hin. rewrite AL in Hin. apply filter_In in Hin.
    destruct Hin as [Hin _]. apply in_seq in Hin. lia. }
  constructor; cbn [s_fr s_al s_sum s_sf s_im s_stop].
  - rewrite upd_length; exact L.
  - intros j Hj. destruct (Nat.eq_dec j k) as [->|Hne].
    + rewrite getz_upd_same by lia. right. lia.
    + rewrite getz_upd_other by auto. apply LO; lia.
  - intros j Hj. rewrite getz_upd_other by lia. apply HI; lia.
  - rewrite sumz_upd by lia. lia.
  - rewrite SF, (sumz_skipn_S k Hk). lia.
  - assert (Hp : present k = true) by (unfold present; rewrite <- Hgk, Ef0; reflexivity).
    change (rev (k :: s_al s)) with (rev (s_al s) ++ [k]). rewrite Hseq, AL, Hp. reflexivity.
  - simpl. rewrite getz_upd_same by lia. rewrite map_getz_upd_notin by exact Hnotin. lia.
  - right. destruct (sc >? getz (upd (s_fr s) k sc) (s_im s)) eqn:Ecmp; [left; reflexivity|].
    destruct IM as [[Hnil Him]|Hin]; [|right; exact Hin].
    (* alphabet was empty: idxMax = 0 *)
    rewrite Him in *. destruct (Nat.eq_dec k 0) as [->|Hk0]; [left; reflexivity|].
    exfalso. rewrite getz_upd_other in Ecmp by exact Hk0.
    assert (Hp0 : present 0 = false).
    { destruct (present 0) eqn:Ep; [|reflexivity].
      assert (Hin0 : In O (filter present (seq 0 k))).
      { apply filter_In. split; [apply in_seq; lia|exact Ep]. }
      rewrite <- AL, Hnil in Hin0. destruct Hin0. }
    unfold present in Hp0. apply negb_false_iff in Hp0.
    destruct (LO O ltac:(lia)) as [[_ H0]|[Ho _]]; lia.
  - intros Hs j Hj. apply suffix_zero with (k := S k); [|exact Hj].
    rewrite (sumz_skipn_S k Hk) in SF. lia.
Qed.

Lemma inv_init : Inv 0 (mkS freqs [] 0 0 O false).
Proof.
  constructor; cbn [s_fr s_al s_sum s_sf s_im s_stop]; auto; try lia.
  simpl. lia.
Qed.

Lemma inv_loop n : (n <= 256)%nat ->
  Inv n (fold_left (scale_step total scale) (seq 0 n) (mkS freqs [] 0 0 O false)).
Proof.
  induction n as [|n IH]; intros Hn; [exact inv_init|].
  rewrite seq_S, fold_left_app. simpl. apply inv_step; [lia|]. apply IH; lia.
Qed.

Lemma inv_final : Inv 256 (scale_loop freqs total scale).
Proof. unfold scale_loop. apply (inv_loop 256). lia. Qed.

Lemma nonzero_syms_eq : nonzero_syms freqs = filter present (seq 0 256).
Proof. reflexivity. Qed.

Local Opaque scale_loop nonzero_syms.

Lemma sumz_all_zero l : (forall j, getz l j = 0) -> sumz l = 0.
Proof.
  induction l as [|x t IH]; intros H; simpl; [reflexivity|].
  pose proof (H O) as H0. unfold getz in H0. simpl in H0.
  rewrite IH; [lia|]. intros j. apply (H (S j)).
Qed.

Lemma Rel_refl : Rel freqs freqs.
Proof.
  split; [exact Hlen|]. intros j Hj. pose proof (getz_nonneg freqs j Hnn).
  unfold rel. lia.
Qed.

Theorem normalize_valid_main :
  exists fr al, normalize freqs total scale = Some (fr, al) /\
    sumz fr = scale /\ Rel freqs fr /\ al = nonzero_syms freqs.
Proof.
  unfold normalize.
  replace ((scale <? 256) || (scale >? 65536)) with false by lia.
  replace (total =? 0) with false by lia.
  destruct (total =? scale) eqn:Ets.
  { exists freqs, (nonzero_syms freqs). sp; auto; [lia|apply Rel_refl]. }
  pose proof inv_final as I.
  set (s := scale_loop freqs total scale) in *.
  destruct I as [L LO HI SUM SF AL ALS IM ST].
  assert (HR : Rel freqs (s_fr s)) by (split; assumption).
  assert (Hsum : sumz (s_fr s) = s_sum s).
  { rewrite skipn_all2 in SF by lia. simpl in SF. lia. }
  assert (Hal : rev (s_al s) = nonzero_syms freqs) by (rewrite nonzero_syms_eq; exact AL).
  assert (Hin : forall i, In i (rev (s_al s)) -> (i < 256)%nat /\ 1 <= getz (s_fr s) i).
  { intros i Hi. rewrite AL in Hi. apply filter_In in Hi. destruct Hi as [Hi Hp].
    apply in_seq in Hi. split; [lia|]. unfold present in Hp. apply negb_true_iff in Hp.
    destruct (LO i ltac:(lia)) as [[H0 _]|[_ H1]]; [lia|exact H1]. }
  assert (Hall : forall j, (j < 256)%nat -> 0 < getz freqs j -> In j (rev (s_al s))).
  { intros j Hj Hp. rewrite AL. apply filter_In. split; [apply in_seq; lia|].
    unfold present. apply negb_true_iff. lia. }
  remember (rev (s_al s)) as al eqn:Eal.
  destruct al as [|a [|b t]].
  - (* empty alphabet is impossible: total > 0 *)
    exfalso. assert (sumz freqs = 0); [|lia].
    apply sumz_all_zero. intros j. destruct (Nat.lt_ge_cases j 256) as [Hj|Hj].
    + pose proof (getz_nonneg freqs j Hnn). destruct (Z.eq_dec (getz freqs j) 0) as [|Hne]; [assumption|].
      destruct (Hall j Hj ltac:(lia)).
    + unfold getz. apply nth_overflow. lia.
  - (* single symbol *)
    destruct (Hin a (or_introl eq_refl)) as [Ha Hga].
    assert (Hs1 : s_al s = [a]).
    { apply (f_equal (@rev nat)) in Eal. rewrite rev_involutive in Eal. simpl in Eal. auto. }
    exists (upd (s_fr s) a scale), [a]. sp; auto.
    + rewrite sumz_upd by lia. rewrite ALS, Hs1 in Hsum. simpl in Hsum. lia.
    + apply Rel_upd; auto; lia.
  - set (al := a :: b :: t) in *.
    assert (Him : In (s_im s) al).
    { destruct IM as [[Hnil _]|Hi]; [rewrite Hnil in Eal; discriminate Eal|].
      rewrite Eal. apply in_rev. rewrite rev_involutive. exact Hi. }
    destruct (Hin _ Him) as [Him256 Hgim].
    set (im := s_im s) in *. set (fr := s_fr s) in *.
    assert (Hal256 : forall i, In i al -> (i < 256)%nat) by (intros i Hi; apply Hin; exact Hi).
    destruct (s_sum s =? scale) eqn:Ess.
    { exists fr, al. sp; auto. lia. }
    pose proof (Z.shiftr_div_pow2 (getz fr im) 4 ltac:(lia)) as Hthr. change (2 ^ 4) with 16 in Hthr.
    set (errThr := Z.shiftr (getz fr im) 4) in *.
    assert (HthrB : 0 <= errThr /\ 16 * errThr <= getz fr im).
    { rewrite Hthr. split; [apply Z.div_pos; lia|]. apply Z.mul_div_le; lia. }
    destruct (Z.abs (s_sum s - scale) <=? errThr) eqn:Efast.
    { exists (upd fr im (getz fr im - (s_sum s - scale))), al. sp; auto.
      - rewrite sumz_upd by lia. lia.
      - apply Rel_upd; auto; lia. }
    destruct (s_sum s - scale <? 0) eqn:Eneg.
    + (* deficit: inc = +1 *)
      assert (HR1 : Rel freqs (upd fr im (getz fr im + errThr))) by (apply Rel_upd; auto; lia).
      pose proof (rounds_spec freqs 1 ltac:(lia) 5 al _ (- (s_sum s - scale + errThr)) HR1 Hal256
                    ltac:(lia)) as HRd.
      destruct (rounds 5 1 al (upd fr im (getz fr im + errThr)) (- (s_sum s - scale + errThr)))
        as [fr2 delta2].
      destruct HRd as (R2 & S2 & D2). rewrite sumz_upd in S2 by lia.
      destruct (delta2 =? 0) eqn:Ed2.
      { exists fr2, al. sp; auto. lia. }
      replace (1 >? 0) with true by reflexivity.
      exists (upd fr2 im (getz fr2 im + delta2)), al. sp; auto.
      * rewrite sumz_upd by (destruct R2 as [-> _]; lia). lia.
      * destruct R2 as [L2 Hr2].
        assert (1 <= getz fr2 im).
        { pose proof (Hr2 im Him256) as X. pose proof (LO im Him256) as Y.
          unfold rel in X, Y. lia. }
        apply Rel_upd; auto; [split; assumption|lia].
    + (* surplus: inc = -1 *)
      assert (HR1 : Rel freqs (upd fr im (getz fr im - errThr))) by (apply Rel_upd; auto; lia).
      pose proof (rounds_spec freqs (-1) ltac:(lia) 5 al _ (s_sum s - scale - errThr) HR1 Hal256
                    ltac:(lia)) as HRd.
      destruct (rounds 5 (-1) al (upd fr im (getz fr im - errThr)) (s_sum s - scale - errThr))
        as [fr2 delta2].
      destruct HRd as (R2 & S2 & D2). rewrite sumz_upd in S2 by lia.
      destruct (delta2 =? 0) eqn:Ed2.
      { exists fr2, al. sp; auto. lia. }
      replace (-1 >? 0) with false by reflexivity.
      assert (Hg2 : 1 <= getz fr2 im).
      { destruct R2 as [L2 Hr2]. pose proof (Hr2 im Him256) as X. pose proof (LO im Him256) as Y.
        unfold rel in X, Y. lia. }
      destruct (getz fr2 im >? delta2) eqn:Ebig.
      { exists (upd fr2 im (getz fr2 im - delta2)), al. sp; auto.
        - rewrite sumz_upd by (destruct R2 as [-> _]; lia). lia.
        - apply Rel_upd; auto; lia. }
      pose proof (drain_spec freqs scale ltac:(lia) (Z.to_nat delta2) al fr2 delta2 R2 Hal256 Hall
                    ltac:(lia) ltac:(lia) ltac:(lia)) as HD.
      destruct (drain (Z.to_nat delta2) al fr2 delta2) as [fr3 d3].
      destruct HD as [R3 S3]. exists fr3, al. sp; auto.
Qed.

End Scale.

Transparent nonzero_syms.
Lemma nonzero_syms_def freqs :
  nonzero_syms freqs = filter (fun i => negb (getz freqs i =? 0)) (seq 0 256).
Proof. reflexivity. Qed.
Opaque nonzero_syms.

Lemma seq_sorted a n : StronglySorted lt (seq a n).
Proof.
  revert a; induction n as [|n IH]; intros a; simpl; constructor; auto.
  apply Forall_forall. intros x Hx. apply in_seq in Hx. lia.
Qed.

Lemma filter_sorted (f : nat -> bool) l : StronglySorted lt l -> StronglySorted lt (filter f l).
Proof.
  induction 1 as [|x l Hs IH Hf]; simpl; [constructor|].
  destruct (f x); [|exact IH]. constructor; [exact IH|].
  apply Forall_forall. intros y Hy. apply filter_In in Hy. destruct Hy as [Hy _].
  rewrite Forall_forall in Hf. apply Hf; exact Hy.
Qed.

Theorem normalize_valid : forall freqs total scale,
  length freqs = 256%nat -> Forall (fun x => 0 <= x) freqs ->
  total = sumz freqs -> 0 < total -> 256 <= scale <= 65536 ->
  exists fr al, normalize freqs total scale = Some (fr, al) /\
    sumz fr = scale /\
    length fr = 256%nat /\
    (forall j, (j < 256)%nat ->
       (getz freqs j = 0 -> getz fr j = 0) /\ (0 < getz freqs j -> 1 <= getz fr j)) /\
    al = filter (fun i => negb (getz freqs i =? 0)) (seq 0 256) /\
    StronglySorted lt al.
Proof.
  intros freqs total scale Hlen Hnn Htot Hpos Hsc.
  destruct (normalize_valid_main freqs total scale Hlen Hnn Htot Hpos Hsc)
    as (fr & al & Hn & Hs & [HL HR] & Hal).
  exists fr, al.
  split; [exact Hn|]. split; [exact Hs|]. split; [exact HL|]. split; [|split].
  - intros j Hj. pose proof (HR j Hj) as X. unfold rel in X. split; intros; lia.
  - rewrite Hal. apply nonzero_syms_def.
  - rewrite Hal, nonzero_syms_def. apply filter_sorted, seq_sorted.
Qed.

Lemma normalize_witness :
  let freqs := repeat 1 212 ++ repeat 2 44 in
  match normalize freqs 300 256 with
  | Some (fr, al) => sumz fr = 256 /\ length al = 256%nat
  | None => False
  end.
Proof. vm_compute. split; reflexivity. Qed.
