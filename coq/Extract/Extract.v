(* Extraction of the executable models to OCaml for the correspondence check.
   Only ExtrOcamlBasic is used: bool/option/list/pairs/unit map to OCaml natives,
   positive/N/Z/nat stay extracted Coq datatypes. No Extract Constant anywhere. *)
From Coq Require Import ExtrOcamlBasic.
From Coq Require Import NArith ZArith.
From KV Require Import Model.Normalize Model.OutBS Model.InBS Model.Handoff Model.Writer Model.Reader.
Extraction "kvmodel.ml" N.add Z.add Normalize.normalize
  OutBS.new_obs OutBS.write_bit OutBS.write_bits OutBS.write_array OutBS.close OutBS.written OutBS.o_out OutBS.o_calls
  Writer.init_w Writer.w_write Writer.w_close Writer.chunks Reader.init_r Reader.r_read Reader.close_r
  Handoff.init Handoff.step Handoff.first_error Handoff.all_done
  InBS.new_ibs InBS.read_bit InBS.read_bits InBS.read_array InBS.iclose InBS.bits_read.
