(* Extraction of the executable models to OCaml for the correspondence check.
   Only ExtrOcamlBasic is used: bool/option/list/pairs/unit map to OCaml natives,
   positive/N/Z/nat stay extracted Coq datatypes. No Extract Constant anywhere. *)
From Coq Require Import ExtrOcamlBasic.
From Coq Require Import NArith ZArith.
From KV Require Import Model.Normalize Model.OutBS Model.InBS Model.Handoff Model.Writer Model.Reader Model.Names Gen.Names Model.Seq Model.BinCoder Model.Header Model.ZRLT Model.FPAQ Model.Container Model.XXHash Model.SBRT Model.Alphabet Model.RangeCodec Model.ContainerG.
From Coq Require Import List.
Definition tr_get_type := get_type transform_type_of_name transform_lookup_uppercases.
Definition tr_get_name := get_name transform_name_of_type.
Definition en_get_type := get_etype entropy_type_of_name entropy_lookup_uppercases.
Definition en_get_name := get_ename entropy_name_of_type.
(* binary arithmetic coder with a replayed predictor: state = the Get() values still to come *)
Definition bc_encode := BinCoder.bin_encode 4 8 (list N) (fun ps => hd 2048%N ps) (fun ps _ => tl ps).
Definition bc_decode := BinCoder.bin_decode 4 8 (list N) (fun ps => hd 2048%N ps) (fun ps _ => tl ps).
Extraction "kvmodel.ml" tr_get_type tr_get_name en_get_type en_get_name N.add Z.add Normalize.normalize
  OutBS.new_obs OutBS.write_bit OutBS.write_bits OutBS.write_array OutBS.close OutBS.written OutBS.o_out OutBS.o_calls
  Writer.init_w Writer.w_write Writer.w_close Writer.chunks Reader.init_r Reader.r_read Reader.close_r
  Handoff.init Handoff.step Handoff.first_error Handoff.all_done
  RangeCodec.range_encode RangeCodec.range_decode Alphabet.alphabet_image Alphabet.alphabet_parse SBRT.sbrt_fwd SBRT.sbrt_inv XXHash.block_hash Container.write_stream Container.parse_stream ContainerG.write_stream_e ContainerG.parse_stream_e FPAQ.fpaq_encode FPAQ.fpaq_decode ZRLT.zfwd ZRLT.zinv Header.header_fields Header.read_header bc_encode bc_decode Seq.mk_stage Seq.seq_forward Seq.seq_inverse
  InBS.new_ibs InBS.read_bit InBS.read_bits InBS.read_array InBS.iclose InBS.bits_read.
