(* Extraction of the executable models to OCaml for the correspondence check.
   Only ExtrOcamlBasic is used: bool/option/list/pairs/unit map to OCaml natives,
   positive/N/Z/nat stay extracted Coq datatypes. No Extract Constant anywhere. *)
From Coq Require Import ExtrOcamlBasic.
From Coq Require Import NArith ZArith.
From KV Require Import Model.Normalize.
Extraction "kvmodel.ml" N.add Z.add Normalize.normalize.
