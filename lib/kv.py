"""Common machinery of the kanzi-go verification checks (see DESIGN.md section 3)."""
import fcntl, glob, hashlib, json, os, re, shutil, subprocess, sys, time

ROOT = os.path.dirname(os.path.dirname(os.path.abspath(__file__)))
COQ = os.path.join(ROOT, "coq")
BUILD = os.path.join(ROOT, "_build")
REPO = "/repo"
GOENV = dict(os.environ, GOFLAGS="-mod=mod", GOPROXY="off", GOSUMDB="off", GOTOOLCHAIN="local",
             CGO_ENABLED=os.environ.get("CGO_ENABLED", "1"))
GO = "go1.26"
FORBIDDEN = re.compile(r"\b(Admitted|admit|Axiom|Axioms|Parameter|Parameters|Conjecture|Conjectures|"
                       r"Unset\s+Guard|bypass_check|Admit\s+Obligations|native_compute|"
                       r"type-in-type|impredicative-set)\b")
ALLOWED_AXIOMS = set()   # the development needs none; see DESIGN.md section 8


def sh(cmd, cwd=None, env=None, timeout=None, inp=None):
    """run a shell command, return (rc, combined output)"""
    try:
        p = subprocess.run(cmd, shell=isinstance(cmd, str), cwd=cwd, env=env, timeout=timeout, input=inp,
                           stdout=subprocess.PIPE, stderr=subprocess.STDOUT, text=True, errors="replace")
        return p.returncode, p.stdout
    except subprocess.TimeoutExpired as e:
        out = e.stdout if isinstance(e.stdout, str) else (e.stdout or b"").decode("utf8", "replace")
        return 124, (out or "") + "\n[timeout after %ss]" % timeout


class Lock:
    def __init__(self, name):
        os.makedirs(BUILD, exist_ok=True)
        self.path = os.path.join(BUILD, "." + name + ".lock")
    def __enter__(self):
        self.f = open(self.path, "w")
        fcntl.flock(self.f, fcntl.LOCK_EX)
        return self
    def __exit__(self, *a):
        fcntl.flock(self.f, fcntl.LOCK_UN)
        self.f.close()


def file_hash(paths):
    h = hashlib.sha256()
    for p in sorted(paths):
        h.update(p.encode())
        with open(p, "rb") as f:
            h.update(f.read())
    return h.hexdigest()


# ---------------------------------------------------------------- Coq
def audit_sources():
    """forbidden constructs anywhere in the development (comments stripped)"""
    bad = []
    for p in glob.glob(os.path.join(COQ, "**", "*.v"), recursive=True):
        src = open(p).read()
        src = re.sub(r"\(\*.*?\*\)", " ", src, flags=re.S)
        for i, line in enumerate(src.split("\n"), 1):
            m = FORBIDDEN.search(line)
            if m:
                bad.append("%s:%d: %s" % (os.path.relpath(p, ROOT), i, m.group(0)))
    return bad


def run_gotrans():
    """regenerate coq/Gen/*.v from /repo's working tree (write-if-changed)"""
    src = os.path.join(ROOT, "tools", "gotrans")
    if not os.path.isdir(src):
        return True, "no translator"
    with Lock("gotrans"):
        # cache: skip when neither the translator nor any non-test Go source changed
        srcs = [f for f in glob.glob(os.path.join(REPO, "v2", "**", "*.go"), recursive=True) if not f.endswith("_test.go")]
        srcs += glob.glob(os.path.join(src, "*.go"))
        stamp = os.path.join(BUILD, "gotrans.stamp")
        h = file_hash(srcs)
        gen = os.path.join(COQ, "Gen")
        if (os.path.exists(stamp) and open(stamp).read() == h
                and all(os.path.exists(os.path.join(gen, f)) for f in ("Consts.v", "Names.v", "Structure.v", "Levels.v"))):
            return True, "cached"
        exe = os.path.join(BUILD, "gotrans")
        rc, out = sh([GO, "build", "-o", exe, "."], cwd=src, env=GOENV, timeout=600)
        if rc != 0:
            return False, out
        rc, out = sh([exe, "-repo", os.path.join(REPO, "v2"), "-out", os.path.join(COQ, "Gen")],
                     cwd=os.path.join(REPO, "v2"), env=GOENV, timeout=900)
        if rc == 0:
            open(stamp, "w").write(h)
        return rc == 0, out


def build_coq(jobs=16, timeout=3000):
    """full .vo build of the development (incremental)"""
    with Lock("coq"):
        mk = os.path.join(COQ, "Makefile")
        cp = os.path.join(COQ, "_CoqProject")
        if not os.path.exists(mk) or os.path.getmtime(mk) < os.path.getmtime(cp):
            rc, out = sh("coq_makefile -f _CoqProject -o Makefile", cwd=COQ, timeout=120)
            if rc != 0:
                return False, out
        rc, out = sh("timeout %d make -j%d -k 2>&1" % (timeout, jobs), cwd=COQ, timeout=timeout + 60)
        return rc == 0, out


def failed_files(make_output):
    return sorted(set(re.findall(r'File "\./([^"]+\.v)"', make_output)))


def check_property_file(pid, timeout=900):
    """compile Properties/<pid>.v on its own and audit every Print Assumptions.
    returns dict(theorems=[...], obligations=n, discharged=n, axioms=[...], ok=bool, log=str)"""
    rel = os.path.join("Properties", pid + ".v")
    path = os.path.join(COQ, rel)
    res = dict(theorems=[], obligations=0, discharged=0, axioms=[], ok=False, log="")
    if not os.path.exists(path):
        res["log"] = "missing " + rel
        return res
    src = re.sub(r"\(\*.*?\*\)", " ", open(path).read(), flags=re.S)
    printed = re.findall(r"Print\s+Assumptions\s+([A-Za-z0-9_'.]+)\s*\.", src)
    stated = re.findall(r"^\s*(?:Theorem|Lemma|Corollary)\s+([A-Za-z0-9_']+)", src, flags=re.M)
    res["theorems"] = stated
    res["obligations"] = len(stated)
    # every stated theorem must be closed by `exact` and audited
    unaudited = [t for t in stated if t not in printed]
    with Lock("coq"):
        rc, out = sh("timeout %d coqc -Q . KV %s 2>&1" % (timeout, rel), cwd=COQ, timeout=timeout + 30)
    res["log"] = out[-4000:]
    if rc != 0:
        return res
    # split the output per Print Assumptions, in order
    blocks = re.split(r"(?m)^(?=Closed under the global context|Axioms:)", out)
    blocks = [b for b in blocks if b.startswith("Closed under") or b.startswith("Axioms:")]
    ok_count = 0
    axioms = set()
    for b in blocks:
        if b.startswith("Closed under"):
            ok_count += 1
        else:
            names = re.findall(r"(?m)^([A-Za-z0-9_'.]+)\s*:", b[len("Axioms:"):])
            axioms.update(names)
            if all(n in ALLOWED_AXIOMS for n in names):
                ok_count += 1
    res["axioms"] = sorted(axioms)
    res["discharged"] = min(ok_count, len(stated)) if not unaudited and len(blocks) == len(printed) else 0
    res["ok"] = (rc == 0 and not unaudited and len(blocks) == len(printed) and ok_count == len(printed)
                 and len(stated) > 0)
    if unaudited:
        res["log"] += "\nunaudited theorems: %s" % unaudited
    return res


def build_driver():
    """extract the models and build the OCaml driver (cached on the extracted source)"""
    with Lock("ocaml"):
        ex = os.path.join(COQ, "Extract")
        rc, out = sh("timeout 900 coqc -Q .. KV Extract.v 2>&1", cwd=ex, timeout=930)
        if rc != 0:
            return None, out
        od = os.path.join(BUILD, "ocaml")
        os.makedirs(od, exist_ok=True)
        srcs = [os.path.join(ex, "kvmodel.ml"), os.path.join(ex, "kvmodel.mli"), os.path.join(ROOT, "ocaml", "driver.ml")]
        h = file_hash(srcs)
        stamp = os.path.join(od, "stamp")
        exe = os.path.join(od, "driver")
        if os.path.exists(exe) and os.path.exists(stamp) and open(stamp).read() == h:
            return exe, "cached"
        for s in srcs:
            shutil.copy(s, od)
        rc, out = sh("ocamlfind ocamlopt -package zarith -linkpkg -w -a kvmodel.mli kvmodel.ml driver.ml -o driver 2>&1",
                     cwd=od, timeout=900)
        if rc != 0:
            return None, out
        open(stamp, "w").write(h)
        return exe, out


def build_harness(race=False):
    """build the Go harness against /repo's working tree with the verif hooks enabled"""
    with Lock("go"):
        hd = os.path.join(ROOT, "harness")
        sumf = os.path.join(REPO, "v2", "go.sum")
        if os.path.exists(sumf):
            shutil.copy(sumf, os.path.join(hd, "go.sum"))
        exe = os.path.join(BUILD, "kvh-race" if race else "kvh")
        cmd = [GO, "build", "-tags", "verif"] + (["-race"] if race else []) + ["-o", exe, "."]
        rc, out = sh(cmd, cwd=hd, env=GOENV, timeout=1200)
        return (exe if rc == 0 else None), out


# ---------------------------------------------------------------- findings, replays, evidence
def known_findings():
    """KNOWN_FINDINGS.txt: lines `finding: property=<id> key=<key> <text>` (suppress) and
    `fixed: property=<id> <commit> <text>` (suppress nothing)"""
    res = {}
    p = os.path.join(ROOT, "KNOWN_FINDINGS.txt")
    if os.path.exists(p):
        for line in open(p):
            m = re.match(r"finding:\s+property=(\S+)\s+key=(\S+)\s+(.*)", line.strip())
            if m:
                res.setdefault(m.group(1), {})[m.group(2)] = m.group(3)
    return res


class Run:
    """one check run of one property"""
    def __init__(self, pid, tier, seed, level):
        self.pid, self.tier, self.seed, self.level = pid, tier, seed, level
        self.t0 = time.time()
        self.violations = []      # (key, replay dict, found_input: bool)
        self.coverage = {}
        self.assumptions = []
        self.notes = []
        self.workdir = os.path.join(BUILD, "run", "%s_%s" % (pid, tier))   # per tier: a quick and a thorough run of one property may overlap
        shutil.rmtree(self.workdir, ignore_errors=True)
        os.makedirs(self.workdir, exist_ok=True)

    def violation(self, key, replay, found_input=True):
        self.violations.append((key, replay, found_input))

    def finish(self):
        kf = known_findings().get(self.pid, {})
        rd = os.path.join(ROOT, "replays", self.pid)
        lines, bad = [], 0
        seen = set()
        for key, replay, found in self.violations:
            if key in seen:
                continue
            seen.add(key)
            if key in kf:
                lines.append("KNOWN-FINDING: property=%s %s (%s)" % (self.pid, kf[key], key))
                continue
            bad += 1
            if bad > 5:
                continue
            os.makedirs(rd, exist_ok=True)
            h = hashlib.sha256(json.dumps([key, replay], sort_keys=True, default=str).encode()).hexdigest()[:12]
            path = os.path.join(rd, h + ".json")
            with open(path, "w") as f:
                json.dump(dict(property=self.pid, key=key, seed=self.seed, tier=self.tier,
                               found_failing_input=found, replay=replay), f, indent=1, default=str)
            lines.append("VIOLATION property=%s replay=%s%s" % (self.pid, path, "" if found else " no-failing-input-found"))
        ev = dict(property_id=self.pid, tier=self.tier, seed=self.seed, level=self.level,
                  coverage=self.coverage, assumptions=self.assumptions,
                  wall_s=round(time.time() - self.t0, 2), violations=bad)
        if self.notes:
            ev["coverage"]["notes"] = self.notes
        os.makedirs(os.path.join(ROOT, "evidence"), exist_ok=True)
        with open(os.path.join(ROOT, "evidence", self.pid + ".json"), "w") as f:
            json.dump(ev, f, indent=1, default=str)
        for l in lines:
            print(l)
        print("%s %s tier=%s seed=%d wall=%.1fs violations=%d" % (
            "FAIL" if bad else "PASS", self.pid, self.tier, self.seed, time.time() - self.t0, bad))
        sys.stdout.flush()
        return 1 if bad else 0


TRUSTED_BASE = [
    "Coq 8.16.1 kernel (coqc; coqchk in the thorough tier); vm_compute used for finite computations; no native_compute",
    "axioms: none declared; Print Assumptions of every property theorem must be 'Closed under the global context'",
    "extraction: ExtrOcamlBasic only (no Extract Constant / Extract Inductive of our own); OCaml 4.13.1 + zarith for text<->number conversion in ocaml/driver.ml",
    "correspondence harness (Go, /verif/harness) and this Python driver; Go 1.26 toolchain",
    "hand-written models in coq/Model are tied to /repo only by the differential runs of this check (bounded, seeded) and by the generated facts in coq/Gen",
]


def proof_phase(run, pid, extra_files=()):
    """gotrans + make + audit + property file. Returns (ok, info). Records coverage keys."""
    ok_t, out_t = run_gotrans()
    bad = audit_sources()
    ok_m, out_m = build_coq()
    pf = check_property_file(pid) if ok_m or True else None
    if run.level != "proof" and pf["obligations"] == 0:
        # no theorem claimed for this property (yet): the development must still build and be clean
        pf["ok"] = True
    ok = ok_t and ok_m and not bad and pf["ok"]
    run.coverage.update(
        obligations=max(pf["obligations"], 1),
        discharged=pf["discharged"] if (ok_m and not bad) else 0,
        theorems=pf["theorems"],
        axioms_reported=pf["axioms"],
        checker_cmd="coq_makefile -f _CoqProject -o Makefile && make -j16 (full .vo build) ; coqc -Q . KV Properties/%s.v (Print Assumptions audit) ; grep for Admitted/admit/Axiom/Parameter/..." % pid,
        trusted_base=TRUSTED_BASE,
    )
    info = dict(make_ok=ok_m, gotrans_ok=ok_t, forbidden=bad, prop=pf,
                failed_files=failed_files(out_m) if not ok_m else [],
                make_tail=out_m[-3000:] if not ok_m else "", gotrans_tail=out_t[-2000:] if not ok_t else "")
    return ok, info


def compare_lines(a_path, b_path, cases_path, limit=5):
    """diff two observable files line by line; returns (n_compared, mismatches[(idx, case, a, b)])"""
    mism = []
    n = 0
    with open(a_path) as fa, open(b_path) as fb, open(cases_path) as fc:
        while True:
            la, lb, lc = fa.readline(), fb.readline(), fc.readline()
            if not la and not lb:
                break
            if la.rstrip("\n") != lb.rstrip("\n"):
                if len(mism) < limit:
                    mism.append((n, lc.strip()[:2000], la.strip()[:1000], lb.strip()[:1000]))
                else:
                    mism.append(None)
            n += 1
    return n, mism


def report_proof_failure(run, pid, info):
    """an obligation no longer checks: violation without a failing input (unless the search found one)"""
    what = []
    if not info["gotrans_ok"]:
        what.append("translator failed: " + info["gotrans_tail"][-500:])
    if info["forbidden"]:
        what.append("forbidden constructs: %s" % info["forbidden"][:5])
    if not info["make_ok"]:
        what.append("Coq build failed in %s" % (info["failed_files"] or "?"))
    pf = info["prop"]
    if not pf["ok"]:
        what.append("Properties/%s.v: %d/%d theorems audited; axioms=%s" % (pid, pf["discharged"], pf["obligations"], pf["axioms"]))
    run.violation("proof-obligation", dict(kind="proof-obligation", theorems=pf["theorems"], problems=what,
                                           log=(info["make_tail"] or pf["log"])[-1500:]), found_input=False)


def run_harness(run, exe, args, timeout=3000):
    rc, out = sh([exe] + args + ["-seed", str(run.seed), "-tier", run.tier, "-out", run.workdir],
                 env=GOENV, timeout=timeout)
    stats = {}
    sp = os.path.join(run.workdir, "stats.json")
    if os.path.exists(sp):
        stats = json.load(open(sp))
    return rc, out, stats


def run_driver(run, drv, cases="cases.txt", out="model.txt", timeout=3000):
    with open(os.path.join(run.workdir, cases)) as fi, open(os.path.join(run.workdir, out), "w") as fo:
        p = subprocess.run([drv], stdin=fi, stdout=fo, stderr=subprocess.PIPE, timeout=timeout)
    return p.returncode, p.stderr.decode("utf8", "replace")


def standard_check(run, pid, hargs, rule, explanation=None, cases="cases.txt", goout="go.txt", use_model=True):
    """proof phase + harness (implementation-side search of the property) + model/implementation
    correspondence on the same cases. Returns stats."""
    ok, info = proof_phase(run, pid)
    exe, hout = build_harness()
    if exe is None:
        raise RuntimeError("harness build failed (does /repo still compile?):\n" + hout[-3000:])
    rc, out, stats = run_harness(run, exe, hargs)
    if rc != 0:
        raise RuntimeError("harness failed rc=%d:\n%s" % (rc, out[-3000:]))
    found = 0
    for v in (stats.get("violations") or []):
        found += 1
        d = dict(v)
        d["check_kind"] = "implementation"
        run.violation(v.get("key", "impl:" + v.get("what", "")[:80]), d, True)
    n_cmp, mism = 0, []
    if use_model:
        drv, dout = build_driver()
        if drv is None:
            ok = False
            info["make_ok"] = False
            info["make_tail"] = "extraction/driver build failed:\n" + dout[-2000:]
        else:
            rc, err = run_driver(run, drv, cases)
            if rc != 0:
                raise RuntimeError("model driver failed: " + err[-2000:])
            n_cmp, mism = compare_lines(os.path.join(run.workdir, goout), os.path.join(run.workdir, "model.txt"),
                                        os.path.join(run.workdir, cases))
            if mism:
                m = [x for x in mism if x][:3]
                run.violation("correspondence", dict(kind="correspondence", note="model and implementation disagree on the same case",
                                                     mismatches=len(mism), first=[dict(index=i, case=c, go=a, model=b) for i, c, a, b in m]),
                              found_input=found > 0)
    if not ok:
        report_proof_failure(run, pid, info)
    run.coverage.update(
        evaluations=int(stats.get("evaluations", 0)),
        distinct_nontrivial=int(stats.get("distinct_nontrivial", 0)),
        rule=rule,
        samples=stats.get("samples") or [],
        correspondence_cases=n_cmp,
        correspondence_mismatches=len(mism),
        input_distribution={k: v for k, v in stats.items() if isinstance(v, dict)},
    )
    if explanation:
        run.coverage["explanation"] = explanation
    return stats
