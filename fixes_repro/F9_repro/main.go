// F9 repro: ROLZX forward transform on DNA-like data.
// Exit 0 = all round trips exact. Non-zero = panic / error / mismatch.
// Usage: f9 | f9 -sweep [-hash] | f9 -dec <dir>   (env F9_SAVE=<dir> saves streams during -sweep)
package main

import (
	"bytes"
	"crypto/sha256"
	"fmt"
	"io"
	"math/rand"
	"os"
	"path/filepath"
	"strings"

	kio "github.com/flanglet/kanzi-go/v2/io"
	"github.com/flanglet/kanzi-go/v2/transform"
)

type sink struct{ bytes.Buffer }

func (s *sink) Close() error { return nil }

type source struct{ *bytes.Reader }

func (s *source) Close() error { return nil }

func gen(kind string, n int, r *rand.Rand) []byte {
	b := make([]byte, n)
	switch kind {
	case "dna":
		for i := range b {
			b[i] = "ACGT"[r.Intn(4)]
		}
	case "dna-rep": // DNA with long repeats (exercises the match path)
		for i := 0; i < n; {
			if i > 200 && r.Intn(4) == 0 {
				l := 8 + r.Intn(300)
				o := r.Intn(i - 100)
				for k := 0; k < l && i < n; k++ {
					b[i] = b[o+k%(i-o)]
					i++
				}
			} else {
				b[i] = "ACGT"[r.Intn(4)]
				i++
			}
		}
	case "dna-nl": // fasta-like: lines of 60 letters, lower-case and N too
		for i := range b {
			if i%61 == 60 {
				b[i] = '\n'
			} else {
				b[i] = "ACGTacgtN"[r.Intn(9)]
			}
		}
	case "text":
		words := []string{"the ", "quick ", "brown ", "fox ", "jumps ", "over ", "lazy ", "dog", ".\n", "compression ", "of ", "data, "}
		for i := 0; i < n; {
			i += copy(b[i:], words[r.Intn(len(words))])
		}
	case "binary": // structured records, exe-ish
		for i := range b {
			switch i & 7 {
			case 0:
				b[i] = 0x48
			case 1:
				b[i] = 0x8B
			case 2:
				b[i] = byte(i >> 8)
			case 3:
				b[i] = 0
			default:
				b[i] = byte(r.Intn(16))
			}
		}
	case "random":
		r.Read(b)
	case "zeros":
	}
	return b
}

// direct transform round trip; returns "" if OK (or cleanly skipped), else description
func direct(src []byte) (res string) {
	defer func() {
		if e := recover(); e != nil {
			res = fmt.Sprintf("PANIC: %v", e)
		}
	}()
	ctx := map[string]any{"transform": "ROLZX", "blockSize": uint(len(src)), "size": uint(len(src)), "entropy": "NONE", "bsVersion": uint(6)}
	f, err := transform.NewROLZCodecWithCtx(&ctx)
	if err != nil {
		return "new: " + err.Error()
	}
	dst := make([]byte, f.MaxEncodedLen(len(src)))
	nr, nw, err := f.Forward(src, dst)
	if err != nil {
		return "" // forward skip (no compression / block too small) is legitimate
	}
	if int(nr) != len(src) {
		return fmt.Sprintf("forward consumed %d of %d", nr, len(src))
	}
	ctx2 := map[string]any{"transform": "ROLZX", "blockSize": uint(len(src)), "size": uint(len(src)), "entropy": "NONE", "bsVersion": uint(6)}
	g, _ := transform.NewROLZCodecWithCtx(&ctx2)
	out := make([]byte, len(src))
	_, ow, err := g.Inverse(dst[:nw], out)
	if err != nil {
		return "inverse: " + err.Error()
	}
	if !bytes.Equal(out[:ow], src) {
		return "MISMATCH (direct)"
	}
	return ""
}

var lastStream []byte

// decode a kanzi stream
func decode(knz []byte) ([]byte, error) {
	r, err := kio.NewReader(&source{bytes.NewReader(knz)}, 1)
	if err != nil {
		return nil, err
	}
	defer r.Close()
	return io.ReadAll(r)
}

// full stream round trip
func stream(src []byte, bs uint) (res string) {
	defer func() {
		if e := recover(); e != nil {
			res = fmt.Sprintf("PANIC: %v", e)
		}
	}()
	var sk sink
	w, err := kio.NewWriter(&sk, "ROLZX", "NONE", bs, 1, 0, 0, false)
	if err != nil {
		return "NewWriter: " + err.Error()
	}
	if _, err = w.Write(src); err != nil {
		return "Write: " + err.Error()
	}
	if err = w.Close(); err != nil {
		return "Close: " + err.Error()
	}
	lastStream = append(lastStream[:0], sk.Bytes()...)
	r, err := kio.NewReader(&source{bytes.NewReader(sk.Bytes())}, 1)
	if err != nil {
		return "NewReader: " + err.Error()
	}
	out, err := io.ReadAll(r)
	if err != nil {
		return "Read: " + err.Error()
	}
	r.Close()
	if !bytes.Equal(out, src) {
		return fmt.Sprintf("MISMATCH (stream) got %d want %d bytes", len(out), len(src))
	}
	return ""
}

func main() {
	r := rand.New(rand.NewSource(9))
	fail := 0
	f11 := 0
	saveDir := os.Getenv("F9_SAVE")
	report := func(what, kind string, n int, s string) {
		if s == "" {
			return
		}
		// Unrelated pre-existing defect ("F11"): ROLZX MaxEncodedLen is too small for
		// incompressible blocks of 16385..~31000 bytes. Counted separately.
		if kind == "random" && strings.Contains(s, "slice bounds out of range") {
			fmt.Printf("known-F11 %s %-8s %8d: %s\n", what, kind, n, s)
			f11++
			return
		}
		fmt.Printf("FAIL %s %-8s %8d: %s\n", what, kind, n, s)
		fail++
	}
	check := func(kind string, n int) {
		src := gen(kind, n, r)
		report("direct", kind, n, direct(src))
		for _, bs := range []uint{65536, 4 << 20} {
			if bs > 65536 && n <= 65536 {
				continue
			}
			lastStream = lastStream[:0]
			s := stream(src, bs)
			report(fmt.Sprintf("stream(bs %d)", bs), kind, n, s)
			if len(os.Args) > 2 && os.Args[2] == "-hash" {
				fmt.Printf("HASH %s %d %d %x %q\n", kind, n, bs, sha256.Sum256(lastStream), s)
			}
			if saveDir != "" && s == "" {
				base := fmt.Sprintf("%s/%s_%d_%d", saveDir, kind, n, bs)
				os.WriteFile(base+".knz", lastStream, 0o644)
				os.WriteFile(base+".src", src, 0o644)
			}
		}
	}
	if len(os.Args) > 2 && os.Args[1] == "-dec" {
		// decode every <dir>/*.knz and compare with the matching .src
		files, _ := filepath.Glob(os.Args[2] + "/*.knz")
		for _, f := range files {
			knz, _ := os.ReadFile(f)
			want, _ := os.ReadFile(strings.TrimSuffix(f, ".knz") + ".src")
			got, err := decode(knz)
			if err != nil || !bytes.Equal(got, want) {
				fmt.Printf("FAIL dec %s: err=%v\n", f, err)
				fail++
			}
		}
		fmt.Printf("dec: %d streams, %d failures\n", len(files), fail)
		if fail != 0 {
			os.Exit(1)
		}
		return
	}
	if len(os.Args) > 1 && os.Args[1] == "-sweep" {
		sizes := []int{100, 101, 107, 128, 255, 256, 1000, 4095, 4096, 4097, 16384, 16385, 65535, 65536, 65537, 100000, 262144, 1 << 20}
		for i := 0; i < 12; i++ {
			sizes = append(sizes, 100+r.Intn(1<<20-100))
		}
		cnt := 0
		for _, k := range []string{"dna", "dna-rep", "dna-nl", "text", "binary", "random", "zeros"} {
			for _, n := range sizes {
				check(k, n)
				cnt++
			}
		}
		fmt.Printf("sweep: %d cases, %d failures, %d known-F11 (unrelated)\n", cnt, fail, f11)
	} else {
		check("dna", 65536)
		check("dna", 100)
		fmt.Printf("%d failures\n", fail)
	}
	if fail != 0 {
		os.Exit(1)
	}
}
