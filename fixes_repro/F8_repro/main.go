// F8 repro: inverse BWT (inverseBiPSIv2, blocks > 4 MiB) on forged streams.
//
//	f8 gen  <file>             write the reference stream (5 MiB text, BWT/NONE, block 8 MiB)
//	f8 dec  <file> <pos> <xor> decode <file> with byte <pos> xor-ed with <xor> (pos<0: unmodified);
//	                           exit 0 = decoder returned (error or data), prints outcome.
//	                           A crash (exit 2, "panic:"/"fatal error:") or a hang is the defect.
//	f8 quick                   flips bytes 31,34,35,37,38,40 each in a child process, 60 s timeout
//	f8 sweep                   first 64 bytes x (8 single-bit flips + xor 0xFF), then 200 random
//	                           later positions x (1 random bit + 0xFF); each in a child process
//	f8 valid                   valid streams of several sizes/jobs must decode byte-identically
package main

import (
	"bytes"
	"context"
	"crypto/sha256"
	"fmt"
	"io"
	"math/rand"
	"os"
	"os/exec"
	"strconv"
	"strings"
	"time"

	kio "github.com/flanglet/kanzi-go/v2/io"
)

type sink struct{ bytes.Buffer }

func (s *sink) Close() error { return nil }

type source struct{ *bytes.Reader }

func (s *source) Close() error { return nil }

func text(n int, seed int64) []byte {
	r := rand.New(rand.NewSource(seed))
	words := strings.Fields("the quick brown fox jumps over the lazy dog while a block sorting transform groups similar contexts together and entropy coding removes the remaining redundancy from every stream of bytes")
	b := make([]byte, 0, n+16)
	for len(b) < n {
		b = append(b, words[r.Intn(len(words))]...)
		if r.Intn(12) == 0 {
			b = append(b, '.', '\n')
		} else {
			b = append(b, ' ')
		}
	}
	return b[:n]
}

func compress(src []byte, bs uint, jobs uint) []byte {
	var sk sink
	w, err := kio.NewWriter(&sk, "BWT", "NONE", bs, jobs, 0, 0, false)
	if err != nil {
		panic(err)
	}
	if _, err = w.Write(src); err != nil {
		panic(err)
	}
	if err = w.Close(); err != nil {
		panic(err)
	}
	return append([]byte(nil), sk.Bytes()...)
}

func decode(knz []byte, jobs uint) ([]byte, error) {
	r, err := kio.NewReader(&source{bytes.NewReader(knz)}, jobs)
	if err != nil {
		return nil, err
	}
	defer r.Close()
	return io.ReadAll(r)
}

const refSize = 5 << 20

// run "dec" in a child; returns outcome class and detail
func child(file string, pos int, x byte, timeout time.Duration) (string, string) {
	ctx, cancel := context.WithTimeout(context.Background(), timeout)
	defer cancel()
	cmd := exec.CommandContext(ctx, os.Args[0], "dec", file, strconv.Itoa(pos), strconv.Itoa(int(x)))
	out, err := cmd.CombinedOutput()
	s := string(out)
	if ctx.Err() != nil {
		return "HANG", fmt.Sprintf("no result after %v", timeout)
	}
	if err != nil {
		line := s
		if i := strings.Index(s, "panic:"); i >= 0 {
			line = s[i:]
		} else if i := strings.Index(s, "fatal error:"); i >= 0 {
			line = s[i:]
		}
		if i := strings.IndexByte(line, '\n'); i >= 0 {
			line = line[:i]
		}
		return "CRASH", line
	}
	return "ok", strings.TrimSpace(s)
}

func main() {
	if len(os.Args) < 2 {
		fmt.Println("usage: f8 gen|dec|quick|sweep|valid")
		os.Exit(64)
	}
	switch os.Args[1] {
	case "gen":
		knz := compress(text(refSize, 8), 8<<20, 1)
		if err := os.WriteFile(os.Args[2], knz, 0o644); err != nil {
			panic(err)
		}
		fmt.Println("stream bytes:", len(knz))
	case "dec":
		knz, err := os.ReadFile(os.Args[2])
		if err != nil {
			panic(err)
		}
		pos, _ := strconv.Atoi(os.Args[3])
		x, _ := strconv.Atoi(os.Args[4])
		if pos >= 0 {
			knz[pos] ^= byte(x)
		}
		jobs := uint(1)
		if v := os.Getenv("F8_JOBS"); v != "" {
			j, _ := strconv.Atoi(v)
			jobs = uint(j)
		}
		out, err := decode(knz, jobs)
		if err != nil {
			fmt.Printf("error after %d bytes: %v\n", len(out), err)
		} else if bytes.Equal(out, text(refSize, 8)) {
			fmt.Printf("decoded %d bytes, identical to original\n", len(out))
		} else {
			fmt.Printf("decoded %d bytes, different from original\n", len(out))
		}
	case "quick", "sweep":
		file := os.TempDir() + "/f8_ref.knz"
		knz := compress(text(refSize, 8), 8<<20, 1)
		os.WriteFile(file, knz, 0o644)
		type flip struct {
			pos int
			x   byte
		}
		var flips []flip
		if os.Args[1] == "quick" {
			for _, p := range []int{31, 34, 35, 37, 38, 40} {
				flips = append(flips, flip{p, 0xFF})
			}
		} else {
			for p := 0; p < 64; p++ {
				for b := 0; b < 8; b++ {
					flips = append(flips, flip{p, 1 << b})
				}
				flips = append(flips, flip{p, 0xFF})
			}
			r := rand.New(rand.NewSource(88))
			for i := 0; i < 200; i++ {
				p := 64 + r.Intn(len(knz)-64)
				if i < 20 { // make sure the tail (end of block / end marker) is covered too
					p = len(knz) - 1 - i
				}
				flips = append(flips, flip{p, 1 << r.Intn(8)}, flip{p, 0xFF})
			}
		}
		if c, d := child(file, -1, 0, 120*time.Second); c != "ok" || !strings.Contains(d, "identical") {
			fmt.Println("reference stream does not decode:", c, d)
			os.Exit(1)
		}
		timeout := 60 * time.Second
		if v, err := strconv.Atoi(os.Getenv("F8_TIMEOUT")); err == nil && v > 0 {
			timeout = time.Duration(v) * time.Second
		}
		bad := 0
		hist := map[string]int{}
		var slowest time.Duration
		for _, f := range flips {
			t0 := time.Now()
			c, d := child(file, f.pos, f.x, timeout)
			el := time.Since(t0)
			if el > slowest {
				slowest = el
			}
			if c != "ok" {
				bad++
				fmt.Printf("%-5s byte %8d xor %02x: %s\n", c, f.pos, f.x, d)
			} else {
				k := d
				if i := strings.Index(d, ": "); i >= 0 {
					k = "error: " + d[i+2:]
				} else if strings.HasPrefix(d, "decoded") {
					k = d[strings.Index(d, ",")+2:]
				}
				hist[k]++
				if os.Args[1] == "quick" {
					fmt.Printf("ok    byte %8d xor %02x: %s (%.1fs)\n", f.pos, f.x, d, el.Seconds())
				}
			}
		}
		for k, v := range hist {
			fmt.Printf("  %5d x %s\n", v, k)
		}
		fmt.Printf("%s: %d forged streams, %d crashes/hangs, slowest decode %.1fs\n", os.Args[1], len(flips), bad, slowest.Seconds())
		if bad != 0 {
			os.Exit(1)
		}
	case "valid":
		// expected hashes are those of the inputs: decode(compress(x)) == x, for the sizes
		// around the 4 MiB threshold and chunk-size corner cases, jobs 1 and 4.
		fail := 0
		for _, n := range []int{100, 255, 256, 257, 70001, 1 << 20, 4 << 20, 4<<20 + 1, 4<<20 + 7, 4<<20 + 8, 4<<20 + 9, 4<<20 + 16, 5<<20 + 8, 5<<20 + 3, 6000001, 8 << 20} {
			src := text(n, int64(n))
			knz := compress(src, 8<<20, 1)
			for _, jobs := range []uint{1, 4} {
				out, err := decode(knz, jobs)
				ok := err == nil && bytes.Equal(out, src)
				h := sha256.Sum256(knz)
				fmt.Printf("valid n=%8d jobs=%d stream=%x ok=%v err=%v\n", n, jobs, h[:6], ok, err)
				if !ok {
					fail++
				}
			}
		}
		if fail != 0 {
			os.Exit(1)
		}
	}
}
