package main

import (
	"bytes"
	"fmt"
	"io"

	kio "github.com/flanglet/kanzi-go/v2/io"
)

type sink struct{ bytes.Buffer }

func (s *sink) Close() error { return nil }

type source struct{ *bytes.Reader }

func (s *source) Close() error { return nil }

func main() {
	counts := []int{1, 1, 1, 1, 1, 1, 1, 2, 3, 4, 8, 13, 23, 38, 63, 105, 177, 298, 500, 807}
	var chunk []byte
	for s, c := range counts {
		for i := 0; i < c; i++ {
			chunk = append(chunk, byte('a'+s))
		}
	}
	for _, pre := range []int{0, 16384} {
		src := append(bytes.Repeat([]byte("xy"), pre/2), chunk...)
		var sk sink
		w, _ := kio.NewWriter(&sk, "NONE", "HUFFMAN", 65536, 1, 0, 0, false)
		_, err := w.Write(src)
		err2 := w.Close()
		fmt.Printf("len %d: write err=%v close err=%v\n", len(src), err, err2)
		if err == nil && err2 == nil {
			r, _ := kio.NewReader(&source{bytes.NewReader(sk.Bytes())}, 1)
			out, err := io.ReadAll(r)
			fmt.Println("  decode err:", err, "equal:", bytes.Equal(out, src), "stream bytes:", sk.Len())
		}
	}
}
