package main

// alm: entropy.EncodeAlphabet / DecodeAlphabet against Model/Alphabet.v: the bytes written for sorted
// alphabets of every size class (empty, full, partial; symbols at the mask boundaries), and what
// DecodeAlphabet returns on those bytes and on arbitrary bytes, for destination arrays of 256 entries
// and shorter ones.  Case line: "al e <symbols>"  /  "al d <cap> <hex bytes>".

import (
	"bytes"
	"encoding/hex"
	"fmt"
	"sort"
	"strings"

	"github.com/flanglet/kanzi-go/v2/bitstream"
	"github.com/flanglet/kanzi-go/v2/entropy"
)

func init() { commands["alm"] = runAlm }

func intsDec(a []int) string {
	if len(a) == 0 {
		return "-"
	}
	s := make([]string, len(a))
	for i, x := range a {
		s[i] = fmt.Sprint(x)
	}
	return strings.Join(s, " ")
}

func runAlm(c *Ctx, _ []string) {
	r := NewRng(c.Seed ^ 0xa1fa)
	cases := c.W("cases.txt")
	gout := c.W("go.txt")
	n := 600 * c.Scale
	nontrivial := 0
	decode := func(bytesIn []byte, capN int) string {
		res := ""
		func() {
			defer func() {
				if e := recover(); e != nil {
					res = "D:panic"
				}
			}()
			ibs, _ := bitstream.NewDefaultInputBitStream(bufRC{bytes.NewReader(bytesIn)}, 1024)
			arr := make([]int, capN)
			cnt, err := entropy.DecodeAlphabet(ibs, arr)
			if err != nil {
				res = "D:size"
			} else {
				res = "D:" + intsDec(arr[:cnt])
			}
		}()
		return res
	}
	for i := 0; i < n; i++ {
		if r.Intn(4) == 0 { // arbitrary bytes
			b := make([]byte, r.Range(0, 40))
			for k := range b {
				b[k] = byte(r.Intn(256))
			}
			if len(b) > 0 && r.Bool() {
				b[0] |= 0x80 // partial alphabet
			}
			capN := []int{256, 256, 255, 16, 0}[r.Intn(5)]
			hx := "-"
			if len(b) > 0 {
				hx = hex.EncodeToString(b)
			}
			fmt.Fprintf(cases, "al d %d %s\n", capN, hx)
			fmt.Fprintln(gout, decode(b, capN))
			c.Count("evaluations", 1)
			continue
		}
		// a sorted alphabet
		var alpha []int
		switch r.Intn(8) {
		case 0:
		case 1:
			for s := 0; s < 256; s++ {
				alpha = append(alpha, s)
			}
		case 2: // all but one
			skip := r.Intn(256)
			for s := 0; s < 256; s++ {
				if s != skip {
					alpha = append(alpha, s)
				}
			}
		case 3: // mask boundaries
			for _, s := range []int{0, 7, 8, 15, 16, 247, 248, 255} {
				if r.Bool() {
					alpha = append(alpha, s)
				}
			}
		default:
			p := r.Range(1, 255)
			hi := []int{256, 256, 64, 9}[r.Intn(4)]
			for s := 0; s < hi; s++ {
				if r.Intn(256) < p {
					alpha = append(alpha, s)
				}
			}
		}
		sort.Ints(alpha)
		sink := &memSink{}
		obs, _ := bitstream.NewDefaultOutputBitStream(sink, 1024)
		res := ""
		func() {
			defer func() {
				if e := recover(); e != nil {
					res = "E:panic"
				}
			}()
			if _, err := entropy.EncodeAlphabet(obs, alpha); err != nil {
				res = "E:err"
				return
			}
			obs.Close()
			res = "E:" + hex.EncodeToString(sink.buf.Bytes())
		}()
		fmt.Fprintf(cases, "al e %s\n", intsDec(alpha))
		if strings.HasPrefix(res, "E:") && res != "E:err" && res != "E:panic" {
			capN := 256
			if r.Intn(6) == 0 {
				capN = r.Range(0, 255)
			}
			d := decode(sink.buf.Bytes(), capN)
			if capN >= len(alpha) && d != "D:"+intsDec(alpha) && !(len(alpha) == 256 && capN < 256) {
				c.Violation(map[string]any{"what": "DecodeAlphabet(EncodeAlphabet(a)) != a", "alphabet": intsDec(alpha), "got": d, "key": "impl:alphabet round trip"})
			}
			res += fmt.Sprintf(" cap=%d %s", capN, d)
			fmt.Fprintf(cases, "al d %d %s\n", capN, hex.EncodeToString(sink.buf.Bytes()))
			fmt.Fprintln(gout, res[:strings.Index(res, " cap=")])
			fmt.Fprintln(gout, d)
			c.Count("evaluations", 2)
			if len(alpha) > 0 && len(alpha) < 256 {
				nontrivial++
			}
			continue
		}
		fmt.Fprintln(gout, res)
		c.Count("evaluations", 1)
	}
	c.Stats["distinct_nontrivial"] = nontrivial
}
