package main

// C07: controlled scheduling of the real encode/decode tasks through the verif hooks.
// Every task of the first batch parks at every protocol step boundary; a scheduler releases
// exactly one task at a time (optionally making the released step fail by panicking inside
// the hook).  The serialized trace is (a) checked directly against the property and
// (b) replayed through the extracted Coq step function (ocaml/driver.ml, command "ho").

import (
	"bytes"
	"errors"
	"fmt"
	stdio "io"
	"strings"
	"sync/atomic"
	"time"

	kio "github.com/flanglet/kanzi-go/v2/io"
)

type hoEvent struct {
	id   int32
	site int
	cnt  int32
}

type hoCtl struct {
	side    int
	first   int32
	n       int
	arrive  chan hoEvent
	release map[int32]chan bool
	done    atomic.Bool
}

func (c *hoCtl) hook(side, site int, id int32, cnt int32) {
	if c.done.Load() || side != c.side || id <= c.first || id > c.first+int32(c.n) {
		return
	}
	c.arrive <- hoEvent{id, site, cnt}
	if site == kio.VerifDone {
		return
	}
	if fail := <-c.release[id]; fail {
		panic(errors.New("injected failure"))
	}
}

type hoStep struct {
	task int // index in the batch
	site int
	cnt  int32
	fail bool
}

type hoRun struct {
	side     int
	n        int
	scenario string
	steps    []hoStep // arrivals in order (initial arrivals first)
	apiErr   bool
	deadlock bool
	timeout  bool
	widths   []int
	bad      string
}

func failable(side, site int) bool {
	if side == kio.VerifEnc {
		return site == kio.VerifCompute || site == kio.VerifHold
	}
	return site == kio.VerifHold || site == kio.VerifLocal
}

// runs one controlled execution. choices: prefix of decisions (index into the option list).
func hoExecute(side, n int, scenario string, choices []int, r *Rng) *hoRun {
	run := &hoRun{side: side, n: n, scenario: scenario}
	ctl := &hoCtl{side: side, first: 0, n: n, arrive: make(chan hoEvent, 64), release: map[int32]chan bool{}}
	for i := 1; i <= n; i++ {
		ctl.release[int32(i)] = make(chan bool, 1)
	}
	var h kio.VerifController = ctl.hook
	kio.VerifHook.Store(&h)
	defer kio.VerifHook.Store(nil)

	// the API call that runs the batch, in its own goroutine
	apiDone := make(chan error, 1)
	const bs = 1024
	mk := func(k int) []byte {
		d := make([]byte, k)
		for i := range d {
			d[i] = byte(i*31 + i>>7)
		}
		return d
	}
	if side == kio.VerifEnc {
		go func() {
			sink := &faultSink{}
			w, err := kio.NewWriter(sink, "NONE", "NONE", bs, uint(n), 0, 0, false)
			if err != nil {
				apiDone <- err
				return
			}
			_, err = w.Write(mk(n * bs)) // fills the n slots: processBlock runs inside Write
			ctl.done.Store(true)
			w.Close()
			apiDone <- err
		}()
	} else {
		// stream with nb blocks: scenario decides how many and the range
		nb := n
		from, to := 0, 0
		switch scenario {
		case "eos": // last task of the batch meets the end marker
			nb = n - 1
		case "skipfirst":
			from = 2
		case "skiplast":
			to = n
		case "skipall": // the whole first batch is outside the range: processBlock starts a second batch
			nb = 2 * n
			from = n + 1
		}
		sink := &faultSink{}
		w, _ := kio.NewWriter(sink, "NONE", "NONE", bs, 1, 32, 0, false)
		w.Write(mk(nb * bs))
		w.Close()
		go func() {
			ctx := map[string]any{"jobs": uint(n)}
			if from > 0 {
				ctx["from"] = from
			}
			if to > 0 {
				ctx["to"] = to
			}
			rd, err := kio.NewReaderWithCtx(stdio.NopCloser(bytes.NewReader(sink.data)), ctx)
			if err != nil {
				apiDone <- err
				return
			}
			buf := make([]byte, 100)
			_, err = rd.Read(buf) // first Read decodes the first batch
			ctl.done.Store(true)
			if err == stdio.EOF {
				err = nil
			}
			apiDone <- err
		}()
	}

	parked := map[int32]hoEvent{}
	live := n
	lastCnt := int32(0)
	injected := false
	timeout := time.After(20 * time.Second)
	wait := func() (hoEvent, bool) {
		select {
		case ev := <-ctl.arrive:
			return ev, true
		case <-timeout:
			return hoEvent{}, false
		}
	}
	for len(parked) < live {
		ev, ok := wait()
		if !ok {
			run.timeout = true
			ctl.done.Store(true)
			return run
		}
		parked[ev.id] = ev
		lastCnt = ev.cnt
	}
	for i := 1; i <= n; i++ { // initial arrivals, in id order
		ev := parked[int32(i)]
		run.steps = append(run.steps, hoStep{task: i - 1, site: ev.site, cnt: ev.cnt})
	}
	failedTask := int32(-1)
	failedDone := false
	holder := int32(-1) // direct check: who owns the shared stream
	lastHold := int32(0)
	dec := 0
	for live > 0 {
		type opt struct {
			id   int32
			fail bool
		}
		opts := []opt{}
		for i := 1; i <= n; i++ {
			ev, ok := parked[int32(i)]
			if !ok {
				continue
			}
			if ev.site == kio.VerifWait && lastCnt != -1 && lastCnt != ev.id-1 {
				continue // a spin iteration: stutter, not offered
			}
			opts = append(opts, opt{ev.id, false})
			if !injected && failable(side, ev.site) {
				opts = append(opts, opt{ev.id, true})
			}
		}
		if len(opts) == 0 {
			run.deadlock = true
			run.bad = fmt.Sprintf("deadlock: %d live tasks all spinning, counter=%d", live, lastCnt)
			break
		}
		pick := 0
		if dec < len(choices) {
			pick = choices[dec]
		} else if r != nil {
			pick = r.Intn(len(opts))
		}
		if pick >= len(opts) {
			pick = 0
		}
		run.widths = append(run.widths, len(opts))
		dec++
		o := opts[pick]
		if o.fail {
			injected = true
			failedTask = o.id
		}
		from := parked[o.id]
		delete(parked, o.id)
		ctl.release[o.id] <- o.fail
		ev, ok := wait()
		if !ok {
			run.timeout = true
			run.bad = "task did not reach its next protocol step within 20 s"
			break
		}
		if ev.id != o.id {
			run.bad = fmt.Sprintf("task %d moved while parked", ev.id)
			break
		}
		lastCnt = ev.cnt
		run.steps = append(run.steps, hoStep{task: int(ev.id) - 1, site: ev.site, cnt: ev.cnt, fail: o.fail})
		// direct property checks on the serialized trace
		if from.site == kio.VerifHold {
			holder = -1
		}
		if ev.site == kio.VerifHold {
			if failedDone && run.bad == "" {
				run.bad = fmt.Sprintf("task %d acquired the shared stream after the failed task %d had finished: the others are not stopped", ev.id, failedTask)
			}
			if holder != -1 && run.bad == "" {
				run.bad = fmt.Sprintf("task %d acquired the shared stream while task %d owns it", ev.id, holder)
			}
			if ev.id != lastHold+1 && run.bad == "" {
				run.bad = fmt.Sprintf("shared access out of order: task %d after task %d", ev.id, lastHold)
			}
			holder = ev.id
			lastHold = ev.id
		}
		if ev.site == kio.VerifDone {
			live--
			if ev.id == failedTask {
				failedDone = true
			}
		} else {
			parked[ev.id] = ev
		}
	}
	ctl.done.Store(true)
	// unblock anything still parked (after a detected problem)
	for id := range parked {
		select {
		case ctl.release[id] <- false:
		default:
		}
	}
	go func() { // drain late arrivals
		for {
			select {
			case <-ctl.arrive:
			case <-time.After(2 * time.Second):
				return
			}
		}
	}()
	select {
	case err := <-apiDone:
		run.apiErr = err != nil
	case <-time.After(20 * time.Second):
		run.timeout = true
		if run.bad == "" {
			run.bad = "the API call did not return within 20 s after all tasks finished"
		}
	}
	if run.bad == "" && injected != run.apiErr {
		if injected {
			run.bad = "a task failed but the enclosing API call reported success"
		} else {
			run.bad = "the API call reported an error although no task failed"
		}
	}
	return run
}

func (r *hoRun) caseLine() string {
	sb := strings.Builder{}
	e := "-"
	if r.apiErr {
		e = "E"
	}
	fmt.Fprintf(&sb, "ho %d 1 0 %d %s", r.side, r.n, e)
	for _, s := range r.steps {
		fmt.Fprintf(&sb, " ; %d %d %d", s.task, s.site, s.cnt)
	}
	return sb.String()
}

func (r *hoRun) obsLine() string {
	last := int32(0)
	if len(r.steps) > 0 {
		last = r.steps[len(r.steps)-1].cnt
	}
	e := "-"
	if r.apiErr {
		e = "E"
	}
	return fmt.Sprintf("ok %d %s", last, e)
}

func init() { commands["c07"] = runC07 }

func runC07(c *Ctx, _ []string) {
	r := NewRng(c.Seed ^ 0x0707)
	cases := c.W("cases.txt")
	gout := c.W("go.txt")
	c.Stats["samples"] = []any{}
	seen := map[string]bool{}
	nontrivial := 0
	record := func(run *hoRun, mode string) {
		line := run.caseLine()
		fmt.Fprintln(cases, line)
		fmt.Fprintln(gout, run.obsLine())
		c.Count("evaluations", 1)
		c.Hist("mode", mode)
		c.Hist("scenario", fmt.Sprintf("side=%d n=%d %s", run.side, run.n, run.scenario))
		failed := false
		for _, s := range run.steps {
			if s.fail {
				failed = true
			}
		}
		c.Hist("injected_failure", fmt.Sprint(failed))
		if !seen[line] {
			seen[line] = true
			if failed || run.n >= 2 {
				nontrivial++
			}
		}
		if run.bad != "" {
			c.Violation(map[string]any{"what": run.bad, "case": line, "side": run.side, "n": run.n, "scenario": run.scenario})
		}
		if len(c.Stats["samples"].([]any)) < 3 && failed {
			c.Stats["samples"] = append(c.Stats["samples"].([]any), line)
		}
	}
	type scen struct {
		side int
		n    int
		name string
	}
	// exhaustive DFS over schedules x one injected failure, for 2 tasks (and 3 within a budget)
	budget := 1200 * c.Scale
	exh := []scen{{kio.VerifEnc, 2, "plain"}, {kio.VerifDec, 2, "plain"}, {kio.VerifDec, 2, "eos"}, {kio.VerifDec, 2, "skipfirst"}, {kio.VerifDec, 2, "skiplast"}, {kio.VerifDec, 2, "skipall"}}
	exhaustive := true
	for _, sc := range exh {
		choices := []int{}
		count := 0
		for {
			run := hoExecute(sc.side, sc.n, sc.name, choices, nil)
			record(run, "dfs")
			if run.timeout || run.deadlock {
				// goroutines of the library are stuck: nothing further can be trusted in this process
				c.Stats["aborted_after_hang"] = true
				c.Stats["distinct_nontrivial"] = nontrivial
				return
			}
			count++
			// next schedule: backtrack to the last decision with an untried alternative
			w := run.widths
			k := len(w) - 1
			next := make([]int, len(w))
			copy(next, choices)
			for k >= 0 {
				cur := 0
				if k < len(choices) {
					cur = choices[k]
				}
				if cur+1 < w[k] {
					next = next[:k+1]
					for len(next) <= k {
						next = append(next, 0)
					}
					next[k] = cur + 1
					break
				}
				k--
			}
			if k < 0 {
				break
			}
			choices = next
			if count >= budget/len(exh) {
				exhaustive = false
				break
			}
		}
		c.Hist("dfs_runs", fmt.Sprintf("side=%d n=%d %s: %d", sc.side, sc.n, sc.name, count))
	}
	c.Stats["dfs_exhaustive"] = exhaustive
	// random schedules for larger batches
	rnd := []scen{{kio.VerifEnc, 3, "plain"}, {kio.VerifEnc, 4, "plain"}, {kio.VerifDec, 3, "plain"}, {kio.VerifDec, 4, "eos"}, {kio.VerifDec, 3, "skipfirst"}, {kio.VerifDec, 4, "skiplast"}, {kio.VerifDec, 5, "plain"}, {kio.VerifDec, 3, "skipall"}}
	for i := 0; i < 150*c.Scale; i++ {
		sc := rnd[r.Intn(len(rnd))]
		run := hoExecute(sc.side, sc.n, sc.name, nil, r)
		record(run, "random")
		if run.timeout || run.deadlock {
			c.Stats["aborted_after_hang"] = true
			break
		}
	}
	// free-running: a task failing in any batch (not only the first one a Read call starts) is reported by a Read call,
	// whatever the size of the caller's buffer; nothing hangs
	{
		const bs, nb = 1024, 8
		data := make([]byte, nb*bs)
		for i := range data {
			data[i] = byte(i*31 + i>>7)
		}
		sink := &faultSink{}
		w, _ := kio.NewWriter(sink, "NONE", "NONE", bs, 1, 32, 0, false)
		w.Write(data)
		w.Close()
		// payload of block k: located by its content
		for k := 0; k < nb; k++ {
			off := bytes.Index(sink.data, data[k*bs+8:k*bs+40])
			if off < 0 {
				continue
			}
			bad := append([]byte{}, sink.data...)
			bad[off+3] ^= 0x10
			for jobs := 1; jobs <= 4; jobs++ {
				for _, bl := range []int{100, 1024, 3000, 5000, 65536} {
					c.Count("evaluations", 1)
					c.Hist("mode", "late-failure")
					nontrivial++
					done := make(chan error, 1)
					total := 0
					go func() {
						rd, err := kio.NewReaderWithCtx(stdio.NopCloser(bytes.NewReader(bad)), map[string]any{"jobs": uint(jobs)})
						if err != nil {
							done <- err
							return
						}
						buf := make([]byte, bl)
						for i := 0; i < 1000; i++ {
							n, err := rd.Read(buf)
							total += n
							if err != nil {
								done <- err
								return
							}
						}
						done <- nil
					}()
					var err error
					select {
					case err = <-done:
					case <-time.After(20 * time.Second):
						c.Violation(map[string]any{"what": "Read does not return after a task failure", "block": k, "jobs": jobs, "buf": bl, "key": "impl:late-failure hang"})
						c.Stats["aborted_after_hang"] = true
						c.Stats["distinct_nontrivial"] = nontrivial
						return
					}
					if err == nil || err == stdio.EOF {
						c.Violation(map[string]any{"what": fmt.Sprintf("failure of the task of block %d reported by no Read call (jobs=%d, buffer %d): %d bytes then %v", k+1, jobs, bl, total, err),
							"block": k, "jobs": jobs, "buf": bl, "key": "impl:task failure not reported by Read"})
					}
				}
			}
		}
	}
	c.Stats["distinct_nontrivial"] = nontrivial
}
