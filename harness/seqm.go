package main

// seqm: transform/Sequence.go (ByteTransformSequence) against the extracted Coq model Model/Seq.v.
// The stages are scripted fakes (Tag / Strip / Rev / Decline / Lie) so that every path of the glue
// (skip flags, buffer swapping and resizing, final copy, error paths) is driven on purpose; what a
// real transform does is not the subject here.

import (
	"errors"
	"fmt"
	"strings"

	kanzi "github.com/flanglet/kanzi-go/v2"
	"github.com/flanglet/kanzi-go/v2/transform"
)

func init() { commands["seqm"] = runSeqm }

type fakeStage struct {
	kind byte // T S R D L
	k    int
	m    byte
}

func (f *fakeStage) Forward(src, dst []byte) (uint, uint, error) {
	switch f.kind {
	case 'T', 'L':
		if len(dst) < len(src)+f.k {
			return 0, 0, errors.New("too small")
		}
		for i := 0; i < f.k; i++ {
			dst[i] = f.m
		}
		copy(dst[f.k:], src)
		return uint(len(src)), uint(len(src) + f.k), nil
	case 'S':
		if len(src) <= f.k {
			return 0, 0, errors.New("decline")
		}
		for i := 0; i < f.k; i++ {
			if src[i] != f.m {
				return 0, 0, errors.New("decline")
			}
		}
		if len(dst) < len(src)-f.k {
			return 0, 0, errors.New("too small") // cannot happen: the sequence gives at least len(src)
		}
		copy(dst, src[f.k:])
		return uint(len(src)), uint(len(src) - f.k), nil
	case 'R':
		if len(dst) < len(src) {
			return 0, 0, errors.New("too small")
		}
		for i := range src {
			dst[len(src)-1-i] = src[i]
		}
		return uint(len(src)), uint(len(src)), nil
	}
	return 0, 0, errors.New("decline")
}

func (f *fakeStage) Inverse(src, dst []byte) (uint, uint, error) {
	switch f.kind {
	case 'T', 'L':
		if len(src) < f.k {
			return 0, 0, errors.New("bad")
		}
		for i := 0; i < f.k; i++ {
			if src[i] != f.m {
				return 0, 0, errors.New("bad")
			}
		}
		if len(dst) < len(src)-f.k {
			return 0, 0, errors.New("too small")
		}
		copy(dst, src[f.k:])
		return uint(len(src)), uint(len(src) - f.k), nil
	case 'S':
		if len(dst) < len(src)+f.k {
			return 0, 0, errors.New("too small")
		}
		for i := 0; i < f.k; i++ {
			dst[i] = f.m
		}
		copy(dst[f.k:], src)
		return uint(len(src)), uint(len(src) + f.k), nil
	case 'R':
		if len(dst) < len(src) {
			return 0, 0, errors.New("too small")
		}
		for i := range src {
			dst[len(src)-1-i] = src[i]
		}
		return uint(len(src)), uint(len(src)), nil
	}
	return 0, 0, errors.New("decline")
}

func (f *fakeStage) MaxEncodedLen(n int) int {
	if f.kind == 'T' {
		return n + f.k
	}
	return n
}

func csv(b []byte) string {
	if len(b) == 0 {
		return "-"
	}
	s := make([]string, len(b))
	for i, x := range b {
		s[i] = fmt.Sprint(x)
	}
	return strings.Join(s, ",")
}

func runSeqm(c *Ctx, _ []string) {
	r := NewRng(c.Seed ^ 0x5e9)
	cases := c.W("cases.txt")
	gout := c.W("go.txt")
	n := 3000 * c.Scale
	nontrivial := 0
	for i := 0; i < n; i++ {
		ns := r.Range(1, 8)
		stages := make([]kanzi.ByteTransform, ns)
		desc := make([]string, ns)
		lie := false
		for j := range stages {
			f := &fakeStage{}
			switch r.Intn(9) {
			case 0, 1, 2:
				f.kind, f.k, f.m = 'T', r.Range(0, 5), byte(0xA0+r.Intn(2))
			case 3, 4:
				f.kind, f.k, f.m = 'S', r.Range(1, 4), byte(0xA0+r.Intn(2))
			case 5, 6:
				f.kind = 'R'
			case 7:
				f.kind = 'D'
			default:
				if r.Intn(3) == 0 {
					f.kind, f.k, f.m = 'L', r.Range(1, 5), byte(0xA0+r.Intn(2))
					lie = true
				} else {
					f.kind = 'D'
				}
			}
			stages[j] = f
			desc[j] = fmt.Sprintf("%c:%d:%d", f.kind, f.k, f.m)
		}
		seq, err := transform.NewByteTransformSequence(stages)
		if err != nil {
			continue
		}
		slen := r.Range(1, 24)
		src := make([]byte, slen)
		for k := range src {
			if r.Intn(3) == 0 {
				src[k] = byte(0xA0 + r.Intn(2))
			} else {
				src[k] = byte(r.Intn(256))
			}
		}
		req := seq.MaxEncodedLen(slen)
		dcap := req + r.Intn(4)
		if r.Intn(10) == 0 {
			dcap = r.Range(1, req)
		}
		dcap2 := slen + r.Intn(3)
		if r.Intn(6) == 0 {
			dcap2 = r.Range(1, slen+6)
		}
		orig := append([]byte{}, src...)
		dst := make([]byte, dcap)
		out := strings.Builder{}
		_, flen, ferr := seq.Forward(src, dst)
		skip := seq.SkipFlags()
		lost := false
		if ferr != nil {
			out.WriteString("F:small")
		} else if int(flen) > dcap {
			out.WriteString(fmt.Sprintf("F:lost:%d:%d", skip, flen))
			lost = true
		} else {
			out.WriteString(fmt.Sprintf("F:ok:%d:%s", skip, csv(dst[:flen])))
		}
		if ferr == nil && !lost && flen > 0 {
			enc := append([]byte{}, dst[:flen]...)
			dst2 := make([]byte, dcap2)
			seq2, _ := transform.NewByteTransformSequence(stages)
			seq2.SetSkipFlags(skip)
			_, ilen, ierr := seq2.Inverse(enc, dst2)
			switch {
			case ierr != nil:
				out.WriteString(" I:err")
			case int(ilen) > dcap2:
				out.WriteString(fmt.Sprintf(" I:trunc:%d", ilen))
			default:
				out.WriteString(" I:ok:" + csv(dst2[:ilen]))
				// the property itself, on the real object, when the stages keep their contract
				if !lie && dcap2 >= slen && string(dst2[:ilen]) != string(orig) {
					c.Violation(map[string]any{"what": "Sequence.Inverse(Sequence.Forward(x)) != x with contract-keeping stages",
						"stages": strings.Join(desc, " "), "src": csv(orig), "got": csv(dst2[:ilen]), "skip": skip})
				}
			}
			if !lie && dcap2 >= slen && ierr != nil {
				c.Violation(map[string]any{"what": "Sequence.Inverse fails on the output of Sequence.Forward with contract-keeping stages",
					"stages": strings.Join(desc, " "), "src": csv(orig), "skip": skip, "err": ierr.Error()})
			}
			nontrivial++
		}
		fmt.Fprintf(cases, "sq %d %d ; %s ; %s\n", dcap, dcap2, strings.Join(desc, " "), strings.ReplaceAll(csv(orig), ",", " "))
		fmt.Fprintln(gout, out.String())
		c.Count("evaluations", 1)
		c.Hist("stages", fmt.Sprint(ns))
		if skip == 0xFF {
			c.Hist("outcome", "all_skipped")
		} else {
			c.Hist("outcome", "some_applied")
		}
	}
	c.Stats["distinct_nontrivial"] = nontrivial
}
