package main

// C03: the decoder is total. Structure-aware mutants of valid streams are decoded in a child
// process: a crash (panic in any goroutine, runtime abort) kills only the child; a hang is
// detected by a watchdog in the child. The parent attributes each outcome to a mutant.

import (
	"bufio"
	"bytes"
	"fmt"
	stdio "io"
	"os"
	"os/exec"
	"path/filepath"
	"strings"
	"time"

	kio "github.com/flanglet/kanzi-go/v2/io"
)

func init() {
	commands["c03"] = runC03
	commands["c03child"] = runC03Child
}

type bitWriter struct {
	b    []byte
	nbit int
}

func (w *bitWriter) bits(v uint64, n int) {
	for i := n - 1; i >= 0; i-- {
		if w.nbit%8 == 0 {
			w.b = append(w.b, 0)
		}
		if (v>>uint(i))&1 == 1 {
			w.b[len(w.b)-1] |= 1 << uint(7-w.nbit%8)
		}
		w.nbit++
	}
}

// header with a correct checksum for arbitrary (possibly illegal) field values
func forgeHeader(ck, etype uint64, ttype uint64, blockSize uint64, szMask uint64, hint uint64) *bitWriter {
	w := &bitWriter{}
	w.bits(0x4B414E5A, 32)
	w.bits(6, 4)
	w.bits(ck, 2)
	w.bits(etype, 5)
	w.bits(ttype, 48)
	w.bits(blockSize>>4, 28)
	w.bits(szMask, 2)
	if szMask > 0 {
		w.bits(hint, int(16*szMask))
	}
	w.bits(0, 15)
	H := uint32(0x1E35A7BD)
	seed := uint32(0x01030507 * 6)
	c := H * seed
	c ^= H * uint32(^ck)
	c ^= H * uint32(^etype)
	c ^= H * uint32((^ttype)>>32)
	c ^= H * uint32(^ttype)
	c ^= H * uint32(^((blockSize >> 4) << 4))
	if szMask > 0 {
		c ^= H * uint32((^hint)>>32)
		c ^= H * uint32(^hint)
	}
	c = (c >> 23) ^ (c >> 3)
	w.bits(uint64(c&0xFFFFFF), 24)
	return w
}

// appends the bits of s starting at bit position from
func (w *bitWriter) appendBits(s []byte, from int) {
	r := &bitReader{b: s, pos: from}
	for r.pos < 8*len(s) {
		n := 8*len(s) - r.pos
		if n > 32 {
			n = 32
		}
		v, _ := r.bits(n)
		w.bits(v, n)
	}
}

func runC03Child(c *Ctx, args []string) {
	// args: list file. Lines: "<idx> <jobs> <readsize>"; mutant in <out>/m/<idx>.bin
	f, err := os.Open(filepath.Join(c.Out, "list.txt"))
	if err != nil {
		os.Exit(4)
	}
	start := 0
	if len(args) > 0 {
		fmt.Sscanf(args[0], "%d", &start)
	}
	only := -1 // second argument: decode this mutant only (confirmation of a hang with a long watchdog)
	watchdog := 25 * time.Second
	if len(args) > 1 {
		fmt.Sscanf(args[1], "%d", &only)
		watchdog = 150 * time.Second
	}
	out := bufio.NewWriter(os.Stdout)
	sc := bufio.NewScanner(f)
	for sc.Scan() {
		var idx, jobs, rs int
		if _, err := fmt.Sscanf(sc.Text(), "%d %d %d", &idx, &jobs, &rs); err != nil || idx < start {
			continue
		}
		if only >= 0 && idx != only {
			continue
		}
		data, err := os.ReadFile(filepath.Join(c.Out, "m", fmt.Sprintf("%d.bin", idx)))
		if err != nil {
			continue
		}
		fmt.Fprintf(out, "START %d\n", idx)
		out.Flush()
		done := make(chan string, 1)
		t0 := time.Now()
		go func() {
			rd, err := kio.NewReader(stdio.NopCloser(bytes.NewReader(data)), uint(jobs))
			if err != nil {
				done <- "ctor-error"
				return
			}
			res := readAll(rd, []int{rs}, 3, 64<<20)
			tag := "eof"
			if res.err != nil {
				tag = "error"
			}
			if res.panic != nil {
				tag = fmt.Sprintf("PANIC-IN-CALLER %v", res.panic)
			}
			done <- fmt.Sprintf("%s bytes=%d trail=%s", tag, len(res.data), strings.Join(res.trail, ","))
		}()
		select {
		case r := <-done:
			fmt.Fprintf(out, "DONE %d %.2f %s\n", idx, time.Since(t0).Seconds(), r)
		case <-time.After(watchdog):
			fmt.Fprintf(out, "HANG %d\n", idx)
			out.Flush()
			os.Exit(3)
		}
		out.Flush()
	}
	out.Flush()
	os.Exit(0)
}

func runC03(c *Ctx, _ []string) {
	r := NewRng(c.Seed ^ 0x0303)
	os.MkdirAll(filepath.Join(c.Out, "m"), 0755)
	list := c.W("list.txt")
	c.Stats["samples"] = []any{}
	type mut struct {
		kind string
		desc string
	}
	muts := []mut{}
	emit := func(kind, desc string, data []byte) {
		idx := len(muts)
		os.WriteFile(filepath.Join(c.Out, "m", fmt.Sprintf("%d.bin", idx)), data, 0644)
		fmt.Fprintf(list, "%d %d %d\n", idx, 1+r.Intn(8), 1+r.Intn(20000))
		muts = append(muts, mut{kind, desc})
		c.Hist("kind", kind)
	}
	emitJ := func(kind, desc string, data []byte, jobs int) {
		idx := len(muts)
		os.WriteFile(filepath.Join(c.Out, "m", fmt.Sprintf("%d.bin", idx)), data, 0644)
		fmt.Fprintf(list, "%d %d %d\n", idx, jobs, 1+r.Intn(20000))
		muts = append(muts, mut{kind, desc})
		c.Hist("kind", kind)
	}
	// a block that decodes to slightly more than the block size a forged header declares (inside the padding of the
	// decoding buffers), with small declared sizes (fewer decoding tasks than jobs), for every job count
	// ... and to more than the padded buffer of that block size but less than the 2048-byte floor of the accepted length
	// (1600, 2000, 2047), also with a transform sequence whose stages all declined (skip flags 0xF without the copy flag)
	for ci0, cf := range []sCfg{{"NONE", "NONE", 2048, 1, 0, 0, false}, {"LZ", "HUFFMAN", 2048, 1, 32, 0, false},
		{"RLT", "HUFFMAN", 2048, 1, 0, 0, false}, {"RLT", "NONE", 2048, 1, 32, 0, false}, {"LZ", "ANS0", 2048, 1, 0, 0, false}} {
		for _, size := range []int{1040, 1500, 1600, 2000, 2047} {
			data := mkData("text", size, 5)
			if ci0 >= 2 { // data no stage compresses: the sequence is stored with every stage skipped
				for k := range data {
					data[k] = "AB"[k&1]
				}
				if ci0 == 4 {
					data = mkData("random", size, 7)
				}
			}
			stream, stage, err := compress(cf, data, nil)
			if stage != "" || err != nil {
				continue
			}
			ci := parseContainer(stream, false, 0)
			if !ci.OK {
				continue
			}
			for _, hint := range []uint64{0, 1000, 1024, uint64(size), 4000} {
				szm := uint64(0)
				if hint > 0 {
					szm = 1
				}
				w := forgeHeader(uint64(ci.Checksum/32), ci.Entropy, ci.Transform, 1024, szm, hint)
				w.appendBits(stream, ci.HeaderBits)
				for jobs := 1; jobs <= 8; jobs++ {
					emitJ("forged-blocksize", fmt.Sprintf("%s/%s block of %d bytes, header says 1024, size=%d, jobs=%d", cf.Transform, cf.Entropy, size, hint, jobs), w.b, jobs)
				}
			}
		}
	}
	// base streams: each transform with entropy NONE (transform headers exposed), each entropy with NONE
	type base struct {
		cfg   sCfg
		shape string
		size  int
	}
	bases := []base{}
	for i, t := range transformNames {
		sh := map[string]string{"TEXT": "text", "UTF": "utf8", "DNA": "dna", "PACK": "b64", "EXE": "exe", "MM": "mm", "ZRLT": "runs", "RLT": "runs"}[t]
		if sh == "" {
			sh = "text"
		}
		bases = append(bases, base{sCfg{t, "NONE", 4096, 1, []uint{0, 32, 64}[i%3], 0, false}, sh, 11000})
	}
	for i, e := range entropyNames {
		bases = append(bases, base{sCfg{"NONE", e, 4096, 1, []uint{32, 0, 64}[i%3], 10000, false}, "text", 10000})
	}
	bases = append(bases, base{sCfg{"TEXT+UTF+BWT+RANK+ZRLT", "ANS0", 16384, 1, 32, 0, false}, "text", 40000},
		base{sCfg{"LZP+TEXT+UTF+BWT+LZP", "CM", 16384, 1, 0, 0, false}, "text", 30000},
		base{sCfg{"EXE+RLT+TEXT+UTF+DNA", "TPAQ", 16384, 1, 0, 0, false}, "exe", 30000})
	if c.Scale > 1 {
		bases = append(bases, base{sCfg{"BWT", "NONE", 8 << 20, 1, 0, 0, false}, "text", 5 << 20})
	}
	perBase := 28
	if c.Scale > 1 {
		perBase = 400
	}
	for bi, b := range bases {
		data := mkData(b.shape, b.size, uint64(bi)+c.Seed)
		stream, stage, err := compress(b.cfg, data, nil)
		if stage != "" || err != nil {
			continue
		}
		ci := parseContainer(stream, false, 0)
		if !ci.OK {
			continue
		}
		tag := b.cfg.Transform + "/" + b.cfg.Entropy
		big := len(stream) > 1<<20
		n := perBase
		if big {
			n = 60
		}
		for k := 0; k < n; k++ {
			m := append([]byte{}, stream...)
			switch k % 7 {
			case 0: // truncation, any length (8-byte aligned or not)
				cut := r.Intn(len(m))
				if r.Bool() && len(ci.Frames) > 0 {
					f := ci.Frames[r.Intn(len(ci.Frames))]
					cut = (f.PayloadBit+r.Intn(f.PayloadLen))/8 + r.Intn(3)
					if cut > len(m) {
						cut = len(m)
					}
				}
				emit("truncate", fmt.Sprintf("%s cut at %d/%d", tag, cut, len(m)), m[:cut])
			case 1: // first bytes of a block payload: transform / entropy tables, primary indexes
				f := ci.Frames[r.Intn(len(ci.Frames))]
				bit := f.DataBit + r.Intn(min(512, f.PayloadLen-(f.DataBit-f.PayloadBit)))
				flipBit(m, bit)
				if r.Bool() {
					flipBit(m, f.DataBit+r.Intn(min(512, f.PayloadLen-(f.DataBit-f.PayloadBit))))
				}
				emit("payload-head", fmt.Sprintf("%s bit %d", tag, bit), m)
			case 2: // payload prefix: mode byte, skip flags, pre-transform length, checksum
				f := ci.Frames[r.Intn(len(ci.Frames))]
				bit := f.PayloadBit + r.Intn(f.DataBit-f.PayloadBit)
				flipBit(m, bit)
				emit("payload-prefix", fmt.Sprintf("%s bit %d", tag, bit), m)
			case 3: // frame length field
				f := ci.Frames[r.Intn(len(ci.Frames))]
				bit := f.FrameBit + r.Intn(f.PayloadBit-f.FrameBit)
				flipBit(m, bit)
				emit("frame-length", fmt.Sprintf("%s bit %d", tag, bit), m)
			case 4: // forged header with a valid checksum
				ck, et, tt, bsz, szm, hint := uint64(ci.Checksum/32), ci.Entropy, ci.Transform, uint64(ci.Block), uint64(ci.SzMask), ci.Hint
				switch r.Intn(7) {
				case 0:
					bsz = []uint64{0, 16, 512, 1008, 1 << 30, (1 << 30) + 16, 1 << 31}[r.Intn(7)]
				case 1:
					et = uint64(r.Intn(32))
				case 2:
					tt ^= uint64(r.Intn(64)) << uint(6*r.Intn(8))
				case 3:
					ck = uint64(r.Intn(4))
				case 4:
					szm = uint64(1 + r.Intn(3))
					hint = r.U64() & ((1 << (16 * szm)) - 1)
				case 5:
					bsz = uint64(1024 << uint(r.Intn(12)))
				default:
					tt = r.U64() & ((1 << 48) - 1)
				}
				w := forgeHeader(ck, et, tt, bsz, szm, hint)
				w.appendBits(stream, ci.HeaderBits)
				emit("forged-header", fmt.Sprintf("%s ck=%d et=%d tt=%x bs=%d szm=%d", tag, ck, et, tt, bsz, szm), w.b)
			case 5: // random flips anywhere
				for j := 0; j < 1+r.Intn(4); j++ {
					flipBit(m, r.Intn(8*len(m)))
				}
				emit("random-flips", tag, m)
			default: // splice: garbage tail / duplicated region
				cut := r.Intn(len(m))
				tail := make([]byte, r.Intn(300))
				for j := range tail {
					tail[j] = byte(r.Intn(256))
				}
				emit("splice", fmt.Sprintf("%s at %d", tag, cut), append(m[:cut], tail...))
			}
		}
		if !big && bi%4 == 1 { // every cut inside the header and the first frame header (each header field is read by its own code)
			for cut := 0; cut <= 48 && cut < len(stream); cut++ {
				emit("header-cut", fmt.Sprintf("%s cut at %d", tag, cut), append([]byte{}, stream[:cut]...))
			}
		}
		if !big && bi%4 == 2 { // every cut inside the first block (frame header, block header, code tables of the entropy stage)
			h := ci.HeaderBits / 8
			for cut := h; cut <= h+72 && cut < len(stream); cut++ {
				emit("first-block-cut", fmt.Sprintf("%s cut at %d", tag, cut), append([]byte{}, stream[:cut]...))
			}
		}
		if !big && bi%4 == 3 { // forged headers: a block size smaller than what the blocks decode to, with and without a small declared size
			for _, bsz := range []uint64{uint64(ci.Block) / 2, 1024} {
				if bsz < 1024 || bsz >= uint64(ci.Block) || bsz%16 != 0 {
					continue
				}
				for _, hint := range []uint64{0, 1000, bsz, bsz + 16, 4 * bsz} {
					szm := uint64(0)
					if hint > 0 {
						szm = 1
						if hint >= 1<<16 {
							szm = 2
						}
					}
					for rep := 0; rep < 2; rep++ { // twice: the job count of a mutant is drawn at random
						w := forgeHeader(uint64(ci.Checksum/32), ci.Entropy, ci.Transform, bsz, szm, hint)
						w.appendBits(stream, ci.HeaderBits)
						emit("forged-blocksize", fmt.Sprintf("%s bs=%d size=%d", tag, bsz, hint), w.b)
					}
				}
			}
		}
		if !big && bi%4 == 0 { // forged headers: boundary values of the optional original-size field (present but 0, 1, around the block size, all ones)
			for szm := uint64(1); szm <= 3; szm++ {
				for _, hint := range []uint64{0, 1, uint64(ci.Block) - 1, uint64(ci.Block), 63 * uint64(ci.Block), (1 << (16 * szm)) - 1} {
					hint &= (1 << (16 * szm)) - 1
					w := forgeHeader(uint64(ci.Checksum/32), ci.Entropy, ci.Transform, uint64(ci.Block), szm, hint)
					w.appendBits(stream, ci.HeaderBits)
					emit("forged-size", fmt.Sprintf("%s szm=%d size=%d", tag, szm, hint), w.b)
				}
			}
		}
		if big { // every byte of the BWT block header region
			for pos := 20; pos < 64; pos++ {
				m := append([]byte{}, stream...)
				m[pos] ^= 0xFF
				emit("bwt-primary-index", fmt.Sprintf("%s byte %d", tag, pos), m)
			}
		}
	}
	for k := 0; k < 30; k++ { // garbage
		g := make([]byte, r.Intn(3000))
		for j := range g {
			g[j] = byte(r.Intn(256))
		}
		if k%3 == 0 && len(g) > 4 {
			copy(g, []byte{0x4B, 0x41, 0x4E, 0x5A})
		}
		emit("garbage", "", g)
	}
	for _, w := range c.files {
		w.Flush()
	}
	// run the children
	start := 0
	total := len(muts)
	status := make([]string, total)
	for start < total {
		cmd := exec.Command(os.Args[0], "c03child", "-out", c.Out, fmt.Sprint(start))
		var stderr bytes.Buffer
		cmd.Stderr = &stderr
		pipe, _ := cmd.StdoutPipe()
		if err := cmd.Start(); err != nil {
			panic(err)
		}
		sc := bufio.NewScanner(pipe)
		sc.Buffer(make([]byte, 1<<20), 1<<20)
		current := -1
		last := start - 1
		for sc.Scan() {
			line := sc.Text()
			var idx int
			switch {
			case strings.HasPrefix(line, "START "):
				fmt.Sscanf(line, "START %d", &idx)
				current = idx
			case strings.HasPrefix(line, "DONE "):
				fmt.Sscanf(line, "DONE %d", &idx)
				status[idx] = line
				last = idx
				current = -1
			case strings.HasPrefix(line, "HANG "):
				fmt.Sscanf(line, "HANG %d", &idx)
				status[idx] = "HANG"
				last = idx
				current = -1
			}
		}
		err := cmd.Wait()
		if current >= 0 { // the child died while decoding this mutant
			msg := stderr.String()
			if i := strings.Index(msg, "\ngoroutine"); i > 0 {
				msg = msg[:i]
			}
			status[current] = "CRASH " + strings.TrimSpace(msg)
			if len(status[current]) > 300 {
				status[current] = status[current][:300]
			}
			last = current
		}
		if err == nil && current < 0 && last >= total-1 {
			break
		}
		if last < start {
			last = start // no progress: skip one
		}
		start = last + 1
	}
	// a mutant that ran into the 25 s watchdog is decoded once more, alone, with a 150 s watchdog: a loaded machine must not
	// turn a slow decode into a reported hang
	for i, st := range status {
		if st != "HANG" {
			continue
		}
		cmd := exec.Command(os.Args[0], "c03child", "-out", c.Out, fmt.Sprint(i), fmt.Sprint(i))
		outb, _ := cmd.Output()
		for _, line := range strings.Split(string(outb), "\n") {
			if strings.HasPrefix(line, fmt.Sprintf("DONE %d ", i)) {
				status[i] = line + " (slow: passed the 25 s watchdog on a second run)"
			}
		}
	}
	nontrivial := 0
	for i, st := range status {
		c.Count("evaluations", 1)
		m := muts[i]
		switch {
		case strings.HasPrefix(st, "DONE"):
			if strings.Contains(st, "PANIC-IN-CALLER") {
				c.Violation(map[string]any{"what": "a panic escaped a Reader method: " + st, "mutant": m.kind + " " + m.desc, "file": fmt.Sprintf("m/%d.bin", i), "key": "impl:panic escaped: " + m.kind})
			} else if strings.Contains(st, "DATA") && strings.Contains(st, " error ") {
				// data returned after an error was reported
				c.Violation(map[string]any{"what": "Read returned data after reporting an error: " + st, "mutant": m.kind + " " + m.desc, "key": "impl:data after error: " + m.kind})
			}
			if strings.Contains(st, " error ") {
				c.Hist("outcome", "error")
				nontrivial++
			} else {
				c.Hist("outcome", "decoded")
			}
		case st == "HANG":
			c.Hist("outcome", "HANG")
			c.Violation(map[string]any{"what": "decoding does not terminate (25 s watchdog, confirmed alone with a 150 s watchdog)", "mutant": m.kind + " " + m.desc, "key": "impl:hang: " + m.kind})
		case strings.HasPrefix(st, "CRASH"):
			c.Hist("outcome", "CRASH")
			c.Violation(map[string]any{"what": "the decoding process died: " + st, "mutant": m.kind + " " + m.desc, "key": "impl:crash: " + m.kind})
		default:
			c.Hist("outcome", "not-run")
		}
		if len(c.Stats["samples"].([]any)) < 4 && i%97 == 5 {
			c.Stats["samples"] = append(c.Stats["samples"].([]any), map[string]any{"mutant": m.kind + " " + m.desc, "result": st})
		}
	}
	// keep the failing mutants, drop the rest
	keep := map[string]bool{}
	for _, v := range c.Viol {
		if f, ok := v["file"].(string); ok {
			keep[f] = true
		}
	}
	for i := range muts {
		f := fmt.Sprintf("m/%d.bin", i)
		if !keep[f] {
			os.Remove(filepath.Join(c.Out, f))
		}
	}
	c.Stats["distinct_nontrivial"] = nontrivial
}
