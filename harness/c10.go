package main

// C10: format stability. Step "c10gen" writes inputs and configurations; the vendored
// reference build (kvref) encodes them and decodes them again; step "c10cmp" decodes the
// reference streams with the CURRENT tree and compares with what the reference decoder
// produced. The archived golden corpus (/verif/golden) is decoded as well.

import (
	"bufio"
	"bytes"
	"fmt"
	"os"
	"path/filepath"
	"strings"
	"time"
)

func init() {
	commands["c10gen"] = runC10Gen
	commands["c10cmp"] = runC10Cmp
	commands["c10golden"] = runC10GoldenList
}

type c10Case struct {
	idx   int
	cfg   sCfg
	shape string
	size  int
	seed  uint64
}

func c10Cases(c *Ctx) []c10Case {
	r := NewRng(c.Seed ^ 0x1010)
	var cases []c10Case
	add := func(cfg sCfg, shape string, size int) {
		cases = append(cases, c10Case{len(cases), cfg, shape, size, r.U64()})
	}
	// every transform / entropy codec / checksum width on a matching shape
	shapeOf := map[string]string{"TEXT": "text", "UTF": "utf8", "DNA": "dna", "PACK": "b64", "EXE": "exe", "MM": "mm", "ZRLT": "runs", "RLT": "runs", "ROLZX": "text", "SRT": "skewed", "RANK": "skewed", "MTFT": "skewed"}
	for i, t := range transformNames {
		sh := shapeOf[t]
		if sh == "" {
			sh = "text"
		}
		add(sCfg{t, entropyNames[i%len(entropyNames)], 16384, 1, []uint{0, 32, 64}[i%3], 0, false}, sh, 40000+i)
	}
	for i, e := range entropyNames {
		add(sCfg{transformNames[(i*5)%len(transformNames)], e, 4096, 2, []uint{64, 32, 0}[i%3], 20004, false}, "text", 20004)
	}
	// text with e-mail addresses (delimiter table), block lengths 4 mod 8 with the 64-bit checksum
	add(sCfg{"TEXT", "HUFFMAN", 65536, 1, 64, 0, false}, "email", 30004)
	add(sCfg{"TEXT", "FPAQ", 65536, 1, 32, 0, false}, "email", 50000)
	for _, n := range []int{4100, 4099, 20004, 12, 13, 15} {
		add(sCfg{"NONE", "NONE", 4096, 1, 64, 0, false}, "random", n)
		add(sCfg{"LZ", "ANS0", 4096, 1, 32, 0, false}, "text", n)
	}
	// data kinds that select other parameters inside a transform (ROLZ / ROLZX: 8-byte context and other minimum match for DNA and multimedia)
	for i, t := range []string{"ROLZ", "ROLZX", "LZ", "LZX", "RLT", "TEXT"} {
		for j, sh := range []string{"dna", "dna+repeats", "mm", "exe", "b64", "utf8"} {
			add(sCfg{t, []string{"NONE", "HUFFMAN"}[(i+j)%2], 65536, 1, []uint{0, 64, 32}[(i+j)%3], 0, false}, sh, 40000+i+j)
		}
	}
	// block lengths around the thresholds that are part of the format (BWT: one primary index below 256 bytes, eight from 256 on)
	for i, n := range []int{255, 256, 257, 1024 + 256, 1024 + 255, 4096} {
		add(sCfg{"BWT", []string{"NONE", "ANS0", "HUFFMAN"}[i%3], 1024, 1, []uint{0, 32, 64}[i%3], 0, false}, "text", n)
		add(sCfg{"BWTS", "NONE", 1024, 1, 32, 0, false}, "text", n)
	}
	// many distinct contexts + long repeats: collisions in the hash tables of the match finders are part of the format
	for i, t := range []string{"LZP", "LZ", "LZX", "ROLZ", "ROLZX", "LZP+LZ"} {
		add(sCfg{t, "NONE", 65536, 1, []uint{32, 0, 64}[i%3], 0, false}, "rnd+repeats", 65536)
		add(sCfg{t, "HUFFMAN", 262144, 2, 32, 0, false}, "rnd+repeats", 200000+i)
	}
	for i := 0; i < 110*c.Scale; i++ {
		cfg := randCfg(r, false)
		shape := dataShapes[r.Intn(len(dataShapes))]
		if r.Intn(6) == 0 {
			shape = "email"
		}
		size := pickSize(r, cfg.Block)
		if size > 150000 {
			size = 150000
		}
		slow := cfg.Entropy == "TPAQ" || cfg.Entropy == "TPAQX" || cfg.Entropy == "CM"
		if slow && size > 30000 {
			size = r.Intn(30000)
		}
		setHint(r, &cfg, size)
		if cfg.Hint < int64(size) {
			cfg.Hint = int64(size) // the reference writer loses data with a too small hint (known, fixed defect)
		}
		add(cfg, shape, size)
	}
	return cases
}

func c10Data(k c10Case) []byte {
	if k.shape == "email" {
		r := NewRng(k.seed)
		b := []byte{}
		names := []string{"vombatrix", "wuzzlebat", "quorndale", "zephyrine", "mistlethwaite", "obsidianne"}
		for len(b) < k.size {
			w := words[r.Intn(len(words))]
			switch r.Intn(7) {
			case 0:
				w = names[r.Intn(len(names))] + "@" + names[r.Intn(len(names))] + ".org"
			case 1:
				w = names[r.Intn(len(names))]
			}
			b = append(b, w...)
			b = append(b, ' ')
		}
		return b[:k.size]
	}
	if k.shape == "dna+repeats" { // nucleotides with copied segments (long matches under the DNA parameters of the match finders)
		r := NewRng(k.seed)
		al := "ACGTACGTACGTACGTN\n"
		b := make([]byte, 0, k.size+80)
		for len(b) < k.size {
			if len(b) > 200 && r.Intn(3) == 0 {
				n := r.Range(12, 72)
				from := r.Intn(len(b) - n)
				b = append(b, b[from:from+n]...)
				continue
			}
			for j := r.Range(8, 48); j > 0; j-- {
				b = append(b, al[r.Intn(len(al))])
			}
		}
		return b[:k.size]
	}
	if k.shape == "rnd+repeats" {
		r := NewRng(k.seed)
		b := make([]byte, 0, k.size)
		for len(b) < k.size*3/4 {
			b = append(b, byte(r.U64()))
		}
		for len(b) < k.size {
			from := r.Intn(len(b) - 600)
			n := r.Range(8, 512)
			b = append(b, b[from:from+n]...)
			for j := r.Intn(40); j > 0; j-- {
				b = append(b, byte(r.U64()))
			}
		}
		return b[:k.size]
	}
	return mkData(k.shape, k.size, k.seed)
}

func runC10Gen(c *Ctx, _ []string) {
	os.MkdirAll(filepath.Join(c.Out, "in"), 0755)
	w := c.W("cases.txt")
	for _, k := range c10Cases(c) {
		os.WriteFile(filepath.Join(c.Out, "in", fmt.Sprintf("%d.bin", k.idx)), c10Data(k), 0644)
		fmt.Fprintf(w, "%d %s %s %d %d %d %d %t\n", k.idx, k.cfg.Transform, k.cfg.Entropy, k.cfg.Block, k.cfg.Jobs, k.cfg.Checksum, k.cfg.Hint, k.cfg.Headerless)
	}
	c.Stats["distinct_nontrivial"] = 0
}

func runC10Cmp(c *Ctx, _ []string) {
	c.Stats["samples"] = []any{}
	programs, checked := 0, 0
	for _, k := range c10Cases(c) {
		stream, err := os.ReadFile(filepath.Join(c.Out, "out", fmt.Sprintf("%d.knz", k.idx)))
		if err != nil {
			c.Hist("reference", "encode failed or rejected")
			continue
		}
		ref, err := os.ReadFile(filepath.Join(c.Out, "ref", fmt.Sprintf("%d.bin", k.idx)))
		if err != nil {
			c.Hist("reference", "reference decoder fails on its own stream")
			continue
		}
		orig := c10Data(k)
		if !bytes.Equal(ref, orig) {
			c.Hist("reference", "reference round trip differs (defect of the pinned version)")
			continue
		}
		c.Hist("reference", "round trips")
		programs++
		for _, jobs := range []uint{1, 3} {
			res := decompressTimed(stream, k.cfg, jobs, nil, 0, nil, 120*time.Second)
			checked++
			c.Count("evaluations", 1)
			if res.timeout || res.panic != nil || res.err != nil || !bytes.Equal(res.data, ref) {
				c.Violation(map[string]any{"what": fmt.Sprintf("stream written by the reference version (%s) is not decoded to the reference decoder's output by the current tree with %d jobs: err=%v panic=%v got=%s want=%s",
					k.cfg.String(), jobs, res.err, res.panic, short(res.data), short(ref)), "cfg": k.cfg.String(), "data": describe(k.shape, k.size, k.seed),
					"key": "impl:reference stream not decoded: " + k.cfg.Transform + "/" + k.cfg.Entropy})
				break
			}
		}
		if len(c.Stats["samples"].([]any)) < 3 {
			c.Stats["samples"] = append(c.Stats["samples"].([]any), map[string]any{"cfg": k.cfg.String(), "data": describe(k.shape, k.size, k.seed), "stream": short(stream)})
		}
	}
	// golden corpus
	gdir := "/verif/golden"
	f, err := os.Open(filepath.Join(gdir, "index.txt"))
	golden := 0
	if err == nil {
		sc := bufio.NewScanner(f)
		for sc.Scan() {
			var name, tr, en string
			var block, ck uint
			var hint int64
			var hl bool
			if _, err := fmt.Sscanf(strings.TrimSpace(sc.Text()), "%s %s %s %d %d %d %t", &name, &tr, &en, &block, &ck, &hint, &hl); err != nil {
				continue
			}
			stream, e1 := os.ReadFile(filepath.Join(gdir, name+".knz"))
			orig, e2 := os.ReadFile(filepath.Join(gdir, name+".bin"))
			if e1 != nil || e2 != nil {
				c.Violation(map[string]any{"what": "golden corpus file missing: " + name})
				continue
			}
			golden++
			cfg := sCfg{tr, en, block, 1, ck, hint, hl}
			res := decompressTimed(stream, cfg, 2, nil, 0, nil, 120*time.Second)
			c.Count("evaluations", 1)
			programs++
			checked++
			if res.timeout || res.panic != nil || res.err != nil || !bytes.Equal(res.data, orig) {
				c.Violation(map[string]any{"what": fmt.Sprintf("golden stream %s (%s/%s) no longer decodes to its recorded original: err=%v got=%s want=%s", name, tr, en, res.err, short(res.data), short(orig)),
					"key": "impl:golden " + name})
			}
		}
	}
	c.Stats["golden_streams"] = golden
	c.Stats["programs"] = programs
	c.Stats["disagreements_checked"] = checked
	c.Stats["distinct_nontrivial"] = programs
}

// lists the fixed cases that make up the golden corpus (first entries of c10Cases with seed 1)
func runC10GoldenList(c *Ctx, _ []string) {
	c.Seed = 1
	os.MkdirAll(filepath.Join(c.Out, "in"), 0755)
	w := c.W("cases.txt")
	idx := c.W("index.txt")
	for _, k := range c10Cases(c) {
		if k.idx >= len(transformNames)+len(entropyNames)+2+12 {
			break
		}
		d := c10Data(k)
		if len(d) > 24000 {
			d = d[:24000]
		}
		os.WriteFile(filepath.Join(c.Out, "in", fmt.Sprintf("%d.bin", k.idx)), d, 0644)
		fmt.Fprintf(w, "%d %s %s %d %d %d %d %t\n", k.idx, k.cfg.Transform, k.cfg.Entropy, k.cfg.Block, k.cfg.Jobs, k.cfg.Checksum, 0, k.cfg.Headerless)
		fmt.Fprintf(idx, "g%02d %s %s %d %d %d %t\n", k.idx, k.cfg.Transform, k.cfg.Entropy, k.cfg.Block, k.cfg.Checksum, 0, k.cfg.Headerless)
	}
	c.Stats["distinct_nontrivial"] = 0
}
