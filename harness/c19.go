package main

// C19: the command-line tool (binary given by $KANZI_BIN, built from /repo/v2/app by the check):
// tree round trips over levels / explicit options, no clobber, never writes its input, --rm only
// after a complete output (failing outputs, SIGKILL at random times).

import (
	"bytes"
	"fmt"
	"os"
	"os/exec"
	"path/filepath"
	"sort"
	"strings"
	"syscall"
	"time"
)

func init() { commands["c19"] = runC19 }

type treeFile struct {
	rel  string
	data []byte
}

func mkTree(r *Rng, root string, nfiles int, maxSize int) []treeFile {
	os.MkdirAll(root, 0755)
	dirs := []string{"", "sub", "sub/deep", "other dir", "x.knz.d"}
	var files []treeFile
	for i := 0; i < nfiles; i++ {
		d := dirs[r.Intn(len(dirs))]
		name := []string{"a", "data", "file with space", "report.txt", "IMG.bmp", "z", "archive.tar", ".hidden"}[r.Intn(8)] + fmt.Sprint(i)
		size := r.Intn(maxSize)
		switch r.Intn(6) {
		case 0:
			size = 0
		case 1:
			size = r.Intn(20)
		}
		data := genData(r, dataShapes[r.Intn(len(dataShapes))], size)
		rel := filepath.Join(d, name)
		os.MkdirAll(filepath.Join(root, d), 0755)
		os.WriteFile(filepath.Join(root, rel), data, 0644)
		files = append(files, treeFile{rel, data})
	}
	return files
}

func listTree(root string) []string {
	var out []string
	filepath.Walk(root, func(p string, info os.FileInfo, err error) error {
		if err == nil && !info.IsDir() {
			rel, _ := filepath.Rel(root, p)
			out = append(out, rel)
		}
		return nil
	})
	sort.Strings(out)
	return out
}

func runTool(bin string, timeout time.Duration, stdin []byte, args ...string) (int, []byte, string) {
	cmd := exec.Command(bin, args...)
	var so, se bytes.Buffer
	cmd.Stdout, cmd.Stderr = &so, &se
	if stdin != nil {
		cmd.Stdin = bytes.NewReader(stdin)
	}
	if err := cmd.Start(); err != nil {
		return -1, nil, err.Error()
	}
	done := make(chan error, 1)
	go func() { done <- cmd.Wait() }()
	select {
	case err := <-done:
		if err == nil {
			return 0, so.Bytes(), se.String()
		}
		if ee, ok := err.(*exec.ExitError); ok {
			return ee.ExitCode(), so.Bytes(), se.String()
		}
		return -1, so.Bytes(), err.Error()
	case <-time.After(timeout):
		cmd.Process.Kill()
		return -2, so.Bytes(), "timeout"
	}
}

func runC19(c *Ctx, _ []string) {
	bin := os.Getenv("KANZI_BIN")
	if bin == "" {
		panic("KANZI_BIN not set")
	}
	r := NewRng(c.Seed ^ 0x1919)
	c.Stats["samples"] = []any{}
	scratch, _ := os.MkdirTemp("/var/tmp", "kv.c19.")
	defer os.RemoveAll(scratch)
	nontrivial := 0
	viol := func(key, f string, a ...any) {
		c.Violation(map[string]any{"what": fmt.Sprintf(f, a...), "key": "impl:" + key})
	}
	optSets := func() []string {
		switch r.Intn(3) {
		case 0:
			return []string{"-l", fmt.Sprint(r.Intn(10))}
		case 1:
			o := []string{"-t", randChain(r, 4), "-e", entropyNames[r.Intn(len(entropyNames))], "-b", []string{"4k", "64k", "1m", "4096"}[r.Intn(4)]}
			switch r.Intn(3) {
			case 0:
				o = append(o, "-x")
			case 1:
				o = append(o, "-x64")
			}
			return o
		default:
			return []string{"-l", fmt.Sprint(r.Intn(10)), "-b", []string{"16k", "256k"}[r.Intn(2)], "-x32"}
		}
	}
	// ---------------- T1: tree round trips
	ntrees := 14 * c.Scale
	for t := 0; t < ntrees; t++ {
		root := filepath.Join(scratch, fmt.Sprintf("t%d", t))
		files := mkTree(r, root, r.Range(1, 7), 120000)
		opts := optSets()
		jobs := fmt.Sprint(r.Range(1, 8))
		c.Count("evaluations", 1)
		nontrivial++
		desc := fmt.Sprintf("tree of %d files, options %v, jobs %s", len(files), opts, jobs)
		flowRm := r.Bool()
		args := append([]string{"-c", "-i", root, "-j", jobs, "-v", "0"}, opts...)
		if flowRm {
			args = append(args, "--rm")
		}
		rc, _, se := runTool(bin, 300*time.Second, nil, args...)
		if rc != 0 {
			viol("compress exit status", "%s: compression exits with status %d: %s", desc, rc, strings.TrimSpace(se))
			continue
		}
		want := map[string]bool{}
		for _, f := range files {
			want[f.rel+".knz"] = true
			if !flowRm {
				want[f.rel] = true
			}
		}
		got := listTree(root)
		if len(got) != len(want) {
			viol("tree after compression", "%s (rm=%v): files after compression: %v", desc, flowRm, got)
			continue
		}
		if !flowRm { // sources must be intact; then remove them by hand to decompress in place
			bad := false
			for _, f := range files {
				d, _ := os.ReadFile(filepath.Join(root, f.rel))
				if !bytes.Equal(d, f.data) {
					viol("input modified", "%s: input file %s was modified by compression", desc, f.rel)
					bad = true
				}
				os.Remove(filepath.Join(root, f.rel))
			}
			if bad {
				continue
			}
		}
		rc, _, se = runTool(bin, 300*time.Second, nil, "-d", "-i", root, "-j", jobs, "-v", "0", "--rm")
		if rc != 0 {
			viol("decompress exit status", "%s: decompression exits with status %d: %s", desc, rc, strings.TrimSpace(se))
			continue
		}
		got = listTree(root)
		ok := len(got) == len(files)
		for _, f := range files {
			d, err := os.ReadFile(filepath.Join(root, f.rel))
			if err != nil || !bytes.Equal(d, f.data) {
				ok = false
			}
		}
		if !ok {
			viol("tree round trip", "%s: the tree is not restored byte for byte (files now: %v)", desc, got)
		}
		if len(c.Stats["samples"].([]any)) < 3 {
			c.Stats["samples"] = append(c.Stats["samples"].([]any), desc)
		}
		os.RemoveAll(root)
	}
	// ---------------- T5: stdin / stdout
	for t := 0; t < 4*c.Scale; t++ {
		data := genData(r, dataShapes[r.Intn(len(dataShapes))], r.Intn(200000))
		opts := optSets()
		c.Count("evaluations", 1)
		rc, out, se := runTool(bin, 120*time.Second, data, append([]string{"-c", "-i", "stdin", "-o", "stdout"}, opts...)...)
		if rc != 0 {
			viol("stdin/stdout", "compress from stdin to stdout with %v exits with %d: %s", opts, rc, se)
			continue
		}
		rc, back, se := runTool(bin, 120*time.Second, out, "-d", "-i", "stdin", "-o", "stdout")
		if rc != 0 || !bytes.Equal(back, data) {
			viol("stdin/stdout", "stdin/stdout round trip with %v: status %d, %d bytes back of %d: %s", opts, rc, len(back), len(data), se)
		}
	}
	// ---------------- T2: never overwrite unless forced
	{
		dir := filepath.Join(scratch, "clobber")
		os.MkdirAll(dir, 0755)
		src := filepath.Join(dir, "f.txt")
		data := genData(r, "text", 5000)
		os.WriteFile(src, data, 0644)
		precious := []byte("precious existing content")
		os.WriteFile(src+".knz", precious, 0644)
		c.Count("evaluations", 4)
		rc, _, _ := runTool(bin, 60*time.Second, nil, "-c", "-i", src, "-v", "0")
		now, _ := os.ReadFile(src + ".knz")
		if rc == 0 || !bytes.Equal(now, precious) {
			viol("clobber", "existing output overwritten without --force (status %d)", rc)
		}
		rc, _, _ = runTool(bin, 60*time.Second, nil, "-c", "-i", src, "-o", src+".knz", "-v", "0")
		now, _ = os.ReadFile(src + ".knz")
		if rc == 0 || !bytes.Equal(now, precious) {
			viol("clobber", "existing explicit output overwritten without --force (status %d)", rc)
		}
		// no other option may stand in for --force
		for _, extra := range [][]string{{"--rm"}, {"-j", "4"}, {"-l", "3"}, {"--rm", "-l", "1", "-x64"}, {"-t", "NONE", "-e", "NONE"}, {"--skip"}, {"-x32", "--rm", "-j", "2"}} {
			for _, explicit := range []bool{false, true} {
				args := []string{"-c", "-i", src, "-v", "0"}
				if explicit {
					args = append(args, "-o", src+".knz")
				}
				args = append(args, extra...)
				c.Count("evaluations", 1)
				rc, _, _ := runTool(bin, 60*time.Second, nil, args...)
				now, _ := os.ReadFile(src + ".knz")
				still, _ := os.ReadFile(src)
				if rc == 0 || !bytes.Equal(now, precious) || !bytes.Equal(still, data) {
					viol("clobber", "compression %v without --force: existing output overwritten or source removed (status %d, output intact %v, source intact %v)", args, rc, bytes.Equal(now, precious), bytes.Equal(still, data))
					os.WriteFile(src+".knz", precious, 0644)
					os.WriteFile(src, data, 0644)
				}
			}
		}
		rc, _, se := runTool(bin, 60*time.Second, nil, "-c", "-i", src, "-f", "-v", "0")
		if rc != 0 {
			viol("force", "--force compression fails: %d %s", rc, se)
		}
		knz, _ := os.ReadFile(src + ".knz")
		for _, extra := range [][]string{{"--rm"}, {"-j", "3"}, {"--rm", "-j", "2"}} {
			os.WriteFile(filepath.Join(dir, "out.bin"), precious, 0644)
			args := append([]string{"-d", "-i", src + ".knz", "-o", filepath.Join(dir, "out.bin"), "-v", "0"}, extra...)
			c.Count("evaluations", 1)
			rc, _, _ := runTool(bin, 60*time.Second, nil, args...)
			now, _ := os.ReadFile(filepath.Join(dir, "out.bin"))
			still, _ := os.ReadFile(src + ".knz")
			if rc == 0 || !bytes.Equal(now, precious) || !bytes.Equal(still, knz) {
				viol("clobber", "decompression %v without --force: existing output overwritten or source removed (status %d)", args, rc)
				os.WriteFile(src+".knz", knz, 0644)
			}
		}
		// decompression side
		os.WriteFile(filepath.Join(dir, "out.bin"), precious, 0644)
		rc, _, _ = runTool(bin, 60*time.Second, nil, "-d", "-i", src+".knz", "-o", filepath.Join(dir, "out.bin"), "-v", "0")
		now, _ = os.ReadFile(filepath.Join(dir, "out.bin"))
		if rc == 0 || !bytes.Equal(now, precious) {
			viol("clobber", "decompression overwrote an existing file without --force (status %d)", rc)
		}
		rc, _, _ = runTool(bin, 60*time.Second, nil, "-d", "-i", src+".knz", "-o", filepath.Join(dir, "out.bin"), "-f", "-v", "0")
		now, _ = os.ReadFile(filepath.Join(dir, "out.bin"))
		if rc != 0 || !bytes.Equal(now, data) {
			viol("force", "--force decompression: status %d", rc)
		}
	}
	// ---------------- T3: never writes to its own input (same path, ./path, hard link, symlinks), even with --force
	{
		dir := filepath.Join(scratch, "self")
		os.MkdirAll(dir, 0755)
		data := genData(r, "text", 20000)
		target := filepath.Join(dir, "data.bin")
		variants := []struct{ name, in, out string }{
			{"same path", target, target},
			{"dot path", target, filepath.Join(dir, ".", "data.bin")},
			{"input is a symlink to the output", filepath.Join(dir, "latest"), target},
			{"output is a symlink to the input", target, filepath.Join(dir, "outlink")},
			{"hard link", target, filepath.Join(dir, "hard")},
		}
		for _, mode := range []string{"-c", "-d"} {
			for _, v := range variants {
				os.RemoveAll(dir)
				os.MkdirAll(dir, 0755)
				content := data
				if mode == "-d" { // a valid compressed file as input
					os.WriteFile(filepath.Join(dir, "plain"), data, 0644)
					runTool(bin, 60*time.Second, nil, "-c", "-i", filepath.Join(dir, "plain"), "-o", target, "-v", "0")
					content, _ = os.ReadFile(target)
				} else {
					os.WriteFile(target, data, 0644)
				}
				os.Symlink("data.bin", filepath.Join(dir, "latest"))
				os.Symlink("data.bin", filepath.Join(dir, "outlink"))
				os.Link(target, filepath.Join(dir, "hard"))
				c.Count("evaluations", 1)
				nontrivial++
				rc, _, _ := runTool(bin, 60*time.Second, nil, mode, "-i", v.in, "-o", v.out, "-f", "-v", "0")
				now, _ := os.ReadFile(target)
				if !bytes.Equal(now, content) {
					viol("input overwritten: "+v.name, "%s %s with --force: the tool destroyed its own input (status %d, %d bytes left of %d)", mode, v.name, rc, len(now), len(content))
				}
			}
		}
	}
	// ---------------- T4: --rm only after the output is complete
	{
		dir := filepath.Join(scratch, "rm")
		os.MkdirAll(dir, 0755)
		data := genData(r, "text", 300000)
		src := filepath.Join(dir, "big.txt")
		// output that cannot be written
		os.WriteFile(src, data, 0644)
		c.Count("evaluations", 1)
		rc, _, _ := runTool(bin, 60*time.Second, nil, "-c", "-i", src, "-o", "/dev/full", "-f", "--rm", "-v", "0", "-j", "1")
		if now, err := os.ReadFile(src); err != nil || !bytes.Equal(now, data) {
			viol("rm with failing output", "--rm with an output that fails (/dev/full, status %d): the source is gone or modified", rc)
		}
		// decompression with a failing output
		os.WriteFile(src, data, 0644)
		runTool(bin, 60*time.Second, nil, "-c", "-i", src, "-f", "-v", "0")
		knz, _ := os.ReadFile(src + ".knz")
		c.Count("evaluations", 1)
		rc, _, _ = runTool(bin, 60*time.Second, nil, "-d", "-i", src+".knz", "-o", "/dev/full", "-f", "--rm", "-v", "0")
		if now, err := os.ReadFile(src + ".knz"); err != nil || !bytes.Equal(now, knz) {
			viol("rm with failing output", "decompression --rm with a failing output (status %d): the compressed source is gone", rc)
		}
		// kill points: SIGKILL at random times during a --rm compression of a tree
		kills := 25 * c.Scale
		for k := 0; k < kills; k++ {
			root := filepath.Join(dir, fmt.Sprintf("k%d", k))
			rr := NewRng(uint64(k) + c.Seed)
			files := mkTree(rr, root, 4, 400000)
			level := fmt.Sprint(rr.Intn(7))
			cmd := exec.Command(bin, "-c", "-i", root, "--rm", "-l", level, "-j", fmt.Sprint(rr.Range(1, 4)), "-v", "0", "-b", "64k")
			cmd.Start()
			time.Sleep(time.Duration(rr.Intn(60000)) * time.Microsecond)
			cmd.Process.Signal(syscall.SIGKILL)
			cmd.Wait()
			c.Count("evaluations", 1)
			nontrivial++
			for _, f := range files {
				now, err := os.ReadFile(filepath.Join(root, f.rel))
				if err == nil && bytes.Equal(now, f.data) {
					continue // the source still exists intact
				}
				if err == nil {
					viol("kill point", "kill during --rm: source %s exists but was modified", f.rel)
					continue
				}
				// source removed: its output must decode to it
				rc, back, _ := runTool(bin, 120*time.Second, nil, "-d", "-i", filepath.Join(root, f.rel+".knz"), "-o", "stdout", "-v", "0")
				if rc != 0 || !bytes.Equal(back, f.data) {
					viol("kill point", "killed %d us into a --rm compression (level %s): source %s (%d bytes) was removed but its output does not decode to it (status %d, %d bytes)", 0, level, f.rel, len(f.data), rc, len(back))
				}
			}
			os.RemoveAll(root)
		}
	}
	c.Stats["distinct_nontrivial"] = nontrivial
}
