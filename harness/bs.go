package main

// Bit stream programs: used by C14 (mirror), C06 (short reads at the bit stream level) and
// C08 (faults at the bit stream level). One case = one line of cases.txt, the observables
// of the Go implementation go to go.txt in the token format of ocaml/driver.ml (do_bs).

import (
	"encoding/hex"
	"errors"
	"fmt"
	"io"
	"strconv"
	"strings"

	"github.com/flanglet/kanzi-go/v2/bitstream"
)

type bsOp struct {
	kind  string // wb ws wa wc rb rs ra rc
	value uint64
	count uint
	data  []byte
}

func (o bsOp) String() string {
	switch o.kind {
	case "wb":
		return fmt.Sprintf("wb %d", o.value)
	case "ws":
		return fmt.Sprintf("ws %d %d", o.value, o.count)
	case "wa":
		return fmt.Sprintf("wa %d %s", o.count, hex.EncodeToString(o.data))
	case "rs", "ra":
		return fmt.Sprintf("%s %d", o.kind, o.count)
	}
	return o.kind
}

// sink with fault schedule: wfail>0: only that call fails; wfail<0: every call from -wfail on fails
type faultSink struct {
	data  []byte
	calls int
	wfail int
}

func (s *faultSink) Write(b []byte) (int, error) {
	s.calls++
	if (s.wfail > 0 && s.calls == s.wfail) || (s.wfail < 0 && s.calls >= -s.wfail) {
		return 0, errors.New("sink failure (injected)")
	}
	s.data = append(s.data, b...)
	return len(b), nil
}
func (s *faultSink) Close() error { return nil }

// source with chunk schedule and fault
type schedSource struct {
	data        []byte
	off         int
	sched       []int
	calls       int
	rfail       int
	chunk       int  // when > 0 and the schedule is exhausted: constant chunk size
	offAtFail   int  // bytes delivered before the failing call (-1: the call did not happen)
	eofWithData bool // the last piece is returned together with io.EOF (n > 0, err = EOF), as iotest.DataErrReader does
}

func (s *schedSource) Read(b []byte) (int, error) {
	s.calls++
	k := 0
	if len(s.sched) > 0 {
		k = s.sched[0]
		s.sched = s.sched[1:]
	}
	if k == 0 && s.chunk > 0 {
		k = s.chunk
	}
	if s.rfail > 0 && s.calls == s.rfail {
		s.offAtFail = s.off
		return 0, errors.New("source failure (injected)")
	}
	if s.off >= len(s.data) {
		return 0, io.EOF
	}
	n := len(b)
	if k > 0 && k < n {
		n = k
	}
	if n > len(s.data)-s.off {
		n = len(s.data) - s.off
	}
	copy(b, s.data[s.off:s.off+n])
	s.off += n
	if s.eofWithData && s.off >= len(s.data) {
		return n, io.EOF
	}
	return n, nil
}
func (s *schedSource) Close() error { return nil }

func guard(f func()) (panicked bool) {
	defer func() {
		if r := recover(); r != nil {
			panicked = true
		}
	}()
	f()
	return false
}

type bsCase struct {
	cut          int // -1: none; else the reader only sees the first cut bytes of the sink
	wbuf, rbuf   int
	sched        []int
	wfail, rfail int
	ops          []bsOp
}

func (cs *bsCase) line() string {
	sb := strings.Builder{}
	sched := "-"
	if len(cs.sched) > 0 {
		ss := make([]string, len(cs.sched))
		for i, x := range cs.sched {
			ss[i] = strconv.Itoa(x)
		}
		sched = strings.Join(ss, ",")
	}
	fmt.Fprintf(&sb, "bs %d %d %s %d %d %d", cs.wbuf, cs.rbuf, sched, cs.wfail, cs.rfail, cs.cut)
	for _, o := range cs.ops {
		sb.WriteString(" ; ")
		sb.WriteString(o.String())
	}
	return sb.String()
}

// trivially correct reference: the written bits as a []byte of 0/1
type bitvec struct{ bits []byte }

func (v *bitvec) push(value uint64, n uint) {
	for i := int(n) - 1; i >= 0; i-- {
		v.bits = append(v.bits, byte((value>>uint(i))&1))
	}
}
func (v *bitvec) image() []byte {
	out := make([]byte, (len(v.bits)+7)/8)
	for i, b := range v.bits {
		out[i>>3] |= b << uint(7-i&7)
	}
	return out
}

// runs one case on the Go implementation; returns the observable line and, when checkProp is set
// (healthy sink and source), a description of the first violation of the mirror property.
func runBSCase(cs *bsCase, checkProp bool) (string, string) {
	out := strings.Builder{}
	bad := ""
	fail := func(f string, a ...any) {
		if bad == "" {
			bad = fmt.Sprintf(f, a...)
		}
	}
	sink := &faultSink{wfail: cs.wfail}
	w, _ := bitstream.NewDefaultOutputBitStream(sink, uint(cs.wbuf))
	ref := &bitvec{}
	closed := false
	for _, o := range cs.ops {
		var p bool
		switch o.kind {
		case "wb":
			p = guard(func() { w.WriteBit(int(o.value)) })
			if !p {
				ref.push(o.value&1, 1)
			}
		case "ws":
			p = guard(func() { w.WriteBits(o.value, o.count) })
			if !p {
				ref.push(o.value, o.count)
			}
		case "wa":
			p = guard(func() { w.WriteArray(o.data, o.count) })
			if !p {
				for i := uint(0); i < o.count; i++ {
					ref.push(uint64(o.data[i>>3]>>(7-i&7)), 1)
				}
			}
		case "wc":
			var err error
			p = guard(func() { err = w.Close() })
			if err != nil {
				p = true
			} else {
				closed = true
			}
		default:
			continue
		}
		wr := int64(w.Written())
		if p {
			fmt.Fprintf(&out, "P%d ", wr)
		} else {
			fmt.Fprintf(&out, "W%d ", wr)
		}
		if checkProp {
			if closed && o.kind != "wc" && !p {
				fail("closed stream accepted %s", o.kind)
			}
			if !closed && p {
				fail("%s panicked on an open stream with a healthy sink", o.String()[:min(len(o.String()), 60)])
			}
			if !p && wr != int64(len(ref.bits)) {
				fail("Written() = %d after %d bits", wr, len(ref.bits))
			}
		}
	}
	fmt.Fprintf(&out, "S%s C%d ", hex.EncodeToString(sink.data), sink.calls)
	if checkProp && closed {
		img := ref.image()
		if hex.EncodeToString(img) != hex.EncodeToString(sink.data) {
			fail("byte image differs from the big-endian concatenation of the written bits (%d bits)", len(ref.bits))
		}
	}
	avail := sink.data
	if cs.cut >= 0 && cs.cut < len(avail) {
		avail = avail[:cs.cut]
	}
	src := &schedSource{data: avail, sched: append([]int{}, cs.sched...), rfail: cs.rfail}
	r, _ := bitstream.NewDefaultInputBitStream(src, uint(cs.rbuf))
	pos := 0
	rclosed := false
	hadPanic := false // after a read that panicked the position of the stream is unspecified: the direct rules stop there (the model comparison goes on)
	for _, o := range cs.ops {
		tok := ""
		var p bool
		switch o.kind {
		case "rb":
			var v int
			p = guard(func() { v = r.ReadBit() })
			tok = "v" + strconv.Itoa(v)
			if !p && checkProp && !hadPanic {
				if pos+1 > 8*len(avail) {
					fail("ReadBit past the end returned a value")
				} else if pos+1 <= len(ref.bits) && byte(v) != ref.bits[pos] {
					fail("ReadBit at %d returned %d", pos, v)
				}
				pos++
			}
		case "rs":
			var v uint64
			p = guard(func() { v = r.ReadBits(o.count) })
			tok = "v" + strconv.FormatUint(v, 10)
			if !p && checkProp && !hadPanic {
				if pos+int(o.count) > 8*len(avail) {
					fail("ReadBits(%d) past the end returned a value", o.count)
				} else {
					var e uint64
					for i := 0; i < int(o.count); i++ {
						var b byte
						if pos+i < len(ref.bits) {
							b = ref.bits[pos+i]
						}
						e = e<<1 | uint64(b)
					}
					if e != v {
						fail("ReadBits(%d) at %d returned %d, expected %d", o.count, pos, v, e)
					}
				}
				pos += int(o.count)
			}
		case "ra":
			buf := make([]byte, (o.count+7)/8)
			p = guard(func() { r.ReadArray(buf, o.count) })
			tok = "a" + hex.EncodeToString(buf)
			if !p && checkProp && !hadPanic {
				if pos+int(o.count) > 8*len(avail) {
					fail("ReadArray(%d) past the end returned", o.count)
				} else {
					for i := 0; i < int(o.count); i++ {
						var b byte
						if pos+i < len(ref.bits) {
							b = ref.bits[pos+i]
						}
						if (buf[i>>3]>>(7-uint(i)&7))&1 != b {
							fail("ReadArray(%d) at %d: bit %d differs", o.count, pos, i)
							break
						}
					}
				}
				pos += int(o.count)
			}
		case "rc":
			r.Close()
			rclosed = true
			tok = "c"
		default:
			continue
		}
		if p {
			tok = "p"
			if checkProp && !rclosed && !hadPanic {
				need := 0
				switch o.kind {
				case "rb":
					need = 1
				default:
					need = int(o.count)
				}
				if o.count <= 64 || o.kind == "ra" {
					if pos+need <= 8*len(avail) && need > 0 {
						fail("%s %d panicked at bit %d although %d bits are available", o.kind, o.count, pos, 8*len(avail)-pos)
					}
				}
			}
		} else if checkProp && rclosed && o.kind != "rc" {
			fail("closed input stream accepted %s", o.kind)
		}
		if p && !rclosed {
			hadPanic = true
		}
		rd := int64(r.Read())
		fmt.Fprintf(&out, "%s:%d ", tok, rd)
		if checkProp && !p && !rclosed && !hadPanic && rd != int64(pos) {
			fail("Read() = %d after %d bits", rd, pos)
		}
	}
	return strings.TrimRight(out.String(), " ") + " ", bad
}

func genWriteOps(r *Rng, wbuf int, maxBytes int) []bsOp {
	ops := []bsOp{}
	total := 0
	if r.Intn(5) == 0 {
		// the 64-bit word that reaches the flush threshold (buffer offset len-16) is completed by a single-bit write, or by a
		// short WriteBits: every operation has its own copy of the push/flush sequence
		for round := r.Range(1, 2); round > 0; round-- {
			c := 1
			if r.Intn(3) == 0 {
				c = r.Range(2, 64)
			}
			fill := 8*(wbuf-8) - c
			for fill > 0 {
				k := r.Range(1, 64)
				if k > fill {
					k = fill
				}
				if r.Intn(4) == 0 && fill > 200 {
					k = r.Range(65, 200)
					data := make([]byte, (k+7)/8)
					for j := range data {
						data[j] = byte(r.U64())
					}
					ops = append(ops, bsOp{kind: "wa", count: uint(k), data: data})
				} else if k == 1 && r.Bool() {
					ops = append(ops, bsOp{kind: "wb", value: r.U64() & 1})
				} else {
					ops = append(ops, bsOp{kind: "ws", value: r.U64() & ((uint64(1) << uint(k&63)) - 1), count: uint(k)})
				}
				fill -= k
				total += k
			}
			if c == 1 {
				ops = append(ops, bsOp{kind: "wb", value: 1})
			} else {
				ops = append(ops, bsOp{kind: "ws", value: r.U64() | 1, count: uint(c)})
			}
			total += c
		}
	}
	n := r.Range(1, 60)
	for i := 0; i < n && total < maxBytes*8; i++ {
		switch k := r.Intn(10); {
		case k < 2:
			ops = append(ops, bsOp{kind: "wb", value: r.U64() & 3})
			total++
		case k < 6:
			c := uint(r.Range(1, 64))
			v := r.U64()
			if r.Bool() {
				v &= (uint64(1) << (c & 63)) - 1 // often a clean value, sometimes garbage above count
			}
			ops = append(ops, bsOp{kind: "ws", value: v, count: c})
			total += int(c)
		default:
			var bits int
			switch r.Intn(6) {
			case 0:
				bits = r.Range(0, 70)
			case 1:
				bits = r.Range(60, 600)
			case 2:
				bits = 8*(wbuf-8) + r.Range(-80, 80) // around the flush threshold
			case 3:
				bits = 8*wbuf + r.Range(-300, 300)
			case 4:
				bits = 8 * r.Range(1, 3*wbuf/2)
			default:
				bits = r.Range(1, 8*wbuf*2)
			}
			if bits < 0 {
				bits = 0
			}
			if total+bits > maxBytes*8 {
				bits = r.Range(0, 300)
			}
			data := make([]byte, (bits+7)/8+r.Intn(3))
			for j := range data {
				data[j] = byte(r.U64())
			}
			ops = append(ops, bsOp{kind: "wa", count: uint(bits), data: data})
			total += bits
		}
	}
	return ops
}

// read program mirroring (or regrouping) the write program
func genReadOps(r *Rng, wops []bsOp, regroup bool) []bsOp {
	rops := []bsOp{}
	total := 0
	for _, o := range wops {
		switch o.kind {
		case "wb":
			total++
			if !regroup {
				rops = append(rops, bsOp{kind: "rb"})
			}
		case "ws":
			total += int(o.count)
			if !regroup {
				rops = append(rops, bsOp{kind: "rs", count: o.count})
			}
		case "wa":
			total += int(o.count)
			if !regroup {
				rops = append(rops, bsOp{kind: "ra", count: o.count})
			}
		}
	}
	if regroup {
		left := total
		for left > 0 {
			var c int
			switch r.Intn(4) {
			case 0:
				c = 1
				rops = append(rops, bsOp{kind: "rb"})
			case 1, 2:
				c = r.Range(1, 64)
				if c > left {
					c = left
				}
				if c > 64 {
					c = 64
				}
				rops = append(rops, bsOp{kind: "rs", count: uint(c)})
			default:
				c = r.Range(1, 4000)
				if r.Intn(3) == 0 {
					c = r.Range(1, left)
				}
				if c > left {
					c = left
				}
				rops = append(rops, bsOp{kind: "ra", count: uint(c)})
			}
			left -= c
		}
	}
	return rops
}

func init() {
	commands["c14"] = func(c *Ctx, _ []string) { runBS(c, "c14") }
	commands["c06bs"] = func(c *Ctx, _ []string) { runBS(c, "c06") }
	commands["c08bs"] = func(c *Ctx, _ []string) { runBS(c, "c08") }
	commands["c09bs"] = func(c *Ctx, _ []string) { runBS(c, "c09") }
}

func runBS(c *Ctx, mode string) {
	r := NewRng(c.Seed ^ 0x1414)
	cases := c.W("cases.txt")
	gout := c.W("go.txt")
	n := 700 * c.Scale
	if mode == "c08" {
		n = 400 * c.Scale
	}
	bufs := []int{1024, 1024, 1032, 1048, 2048, 4096}
	seen := map[string]bool{}
	nontrivial := 0
	c.Stats["samples"] = []any{}
	for i := 0; i < n; i++ {
		cs := &bsCase{cut: -1, wbuf: bufs[r.Intn(len(bufs))], rbuf: bufs[r.Intn(len(bufs))]}
		wops := genWriteOps(r, cs.wbuf, 6000)
		rops := genReadOps(r, wops, r.Intn(3) == 0)
		ops := append([]bsOp{}, wops...)
		ops = append(ops, bsOp{kind: "wc"})
		tail := r.Intn(6)
		if tail == 0 { // operations on a closed stream
			ops = append(ops, bsOp{kind: "ws", value: 1, count: 3}, bsOp{kind: "wa", count: 8, data: []byte{1}}, bsOp{kind: "wc"}, bsOp{kind: "wb", value: 1})
		}
		tailKind := r.Intn(6)
		if tailKind == 2 && len(rops) > 1 { // close the reader in the middle of the data (bits still cached in the accumulator)
			rops = rops[:r.Intn(len(rops))]
		}
		straddle := -1
		if tailKind == 0 && len(rops) > 3 && r.Bool() && !(r.Intn(3) == 0) {
			// stop a few operations before the end and get close to it: ONE read then starts inside the data and runs over the
			// final (partial) word (what a stream does after a failed read is unspecified: nothing is issued after it)
			drop := r.Range(1, 3)
			left := 0
			for _, o := range rops[len(rops)-drop:] {
				switch o.kind {
				case "rb":
					left++
				default:
					left += int(o.count)
				}
			}
			rops = rops[:len(rops)-drop]
			k := r.Range(0, 40)
			if left > k {
				rops = append(rops, bsOp{kind: "ra", count: uint(left - k)})
				left = k
			}
			straddle = left
		}
		ops = append(ops, rops...)
		switch tailKind {
		case 0: // read past the end
			if straddle >= 0 {
				if straddle+8 <= 63 && r.Bool() {
					ops = append(ops, bsOp{kind: "rs", count: uint(r.Range(straddle+8, 64))})
				} else {
					ops = append(ops, bsOp{kind: "ra", count: uint(straddle + r.Range(8, 300))})
				}
			} else {
				ops = append(ops, bsOp{kind: "rs", count: uint(r.Range(1, 64))}, bsOp{kind: "rs", count: 64}, bsOp{kind: "ra", count: uint(r.Range(1, 200))})
			}
		case 1:
			ops = append(ops, bsOp{kind: "rc"}, bsOp{kind: "rs", count: 8}, bsOp{kind: "ra", count: 16}, bsOp{kind: "rc"})
		case 2:
			ops = append(ops, bsOp{kind: "rc"}, bsOp{kind: "rb"}, bsOp{kind: "rs", count: uint(r.Range(1, 7))}, bsOp{kind: "rs", count: uint(r.Range(8, 64))},
				bsOp{kind: "ra", count: uint(r.Range(1, 100))}, bsOp{kind: "rc"}, bsOp{kind: "rb"})
		}
		check := true
		switch mode {
		case "c09":
			// truncated byte image: the reader sees a strict prefix (cut decided after the writes)
			cs.cut = -2
		case "c06":
			ns := r.Range(1, 400)
			small := []int{1, 1, 2, 3, 5, 7, 8, 9, 13, 16, 31, 64, 100, 1000}
			for j := 0; j < ns; j++ {
				cs.sched = append(cs.sched, small[r.Intn(len(small))])
			}
			if r.Intn(4) == 0 { // constant tiny chunks for the whole stream
				k := small[r.Intn(8)]
				cs.sched = nil
				for j := 0; j < 7000/k+10 && j < 7000; j++ {
					cs.sched = append(cs.sched, k)
				}
			}
		case "c08":
			check = false
			if r.Bool() {
				cs.wfail = r.Range(1, 8)
				if r.Bool() {
					cs.wfail = -cs.wfail
				}
			} else {
				cs.rfail = r.Range(1, 8)
				if r.Bool() {
					// the source also delivers short reads: the failing call can be a continuation read of the refill loop
					small := []int{1, 2, 3, 5, 7, 9, 13, 31}
					k := small[r.Intn(len(small))]
					for j := 0; j < 200; j++ {
						if r.Intn(3) == 0 {
							cs.sched = append(cs.sched, small[r.Intn(len(small))])
						} else {
							cs.sched = append(cs.sched, k)
						}
					}
					cs.rfail = r.Range(1, 40)
				}
			}
			if r.Bool() {
				// retry the close after a failure
				for j, o := range ops {
					if o.kind == "wc" {
						ops = append(ops[:j+1], append([]bsOp{{kind: "wc"}}, ops[j+1:]...)...)
						break
					}
				}
			}
		}
		cs.ops = ops
		if cs.cut == -2 {
			cs.cut = -1
			obs0, _ := runBSCase(cs, false)
			total := 0
			for _, tk := range strings.Fields(obs0) {
				if tk[0] == 'S' {
					total = (len(tk) - 1) / 2
				}
			}
			if total > 0 {
				cs.cut = r.Intn(total)
				if r.Intn(3) == 0 && total > 9 {
					cs.cut = total - 1 - r.Intn(9)
				}
			}
		}
		if mode == "c09" {
			// keep the program up to the first read that fails (the state of an input bit
			// stream after a panic is never used again by its owner)
			obs0, _ := runBSCase(cs, false)
			toks := strings.Fields(obs0)
			nw, ri := 0, 0
			for _, o := range ops {
				if o.kind[0] == 'w' {
					nw++
				}
			}
			for j, o := range ops {
				if o.kind[0] != 'r' {
					continue
				}
				ti := nw + 2 + ri
				if ti < len(toks) && toks[ti][0] == 'p' {
					kept := append([]bsOp{}, ops[:j+1]...)
					kept = append(kept, bsOp{kind: "rc"})
					cs.ops, ops = kept, kept
					break
				}
				ri++
			}
		}
		if mode == "c08" {
			// An output bit stream that panicked is never written to again by its owner (the
			// Writer cancels the stream): keep only Close calls after the first failed write.
			obs0, _ := runBSCase(cs, false)
			toks := strings.Fields(obs0)
			cut, wi := -1, 0
			for j, o := range ops {
				if o.kind[0] != 'w' {
					continue
				}
				if wi < len(toks) && toks[wi][0] == 'P' && o.kind != "wc" && cut < 0 {
					cut = j
				}
				wi++
			}
			if cut >= 0 {
				kept := append([]bsOp{}, ops[:cut+1]...)
				for _, o := range ops[cut+1:] {
					if o.kind == "wc" || o.kind[0] == 'r' {
						kept = append(kept, o)
					}
				}
				cs.ops, ops = kept, kept
			}
			// same on the input side: after a read panicked the Reader never uses the bit stream
			// again (sticky error); only a failure of the very first read is retried (header
			// retry): keep one retry of the same operation in that case.
			obs0, _ = runBSCase(cs, false)
			toks = strings.Fields(obs0)
			rcut, ri, nw, retry := -1, 0, 0, false
			for _, o := range ops {
				if o.kind[0] == 'w' {
					nw++
				}
			}
			for j, o := range ops {
				if o.kind[0] != 'r' {
					continue
				}
				ti := nw + 2 + ri
				if ti < len(toks) && toks[ti][0] == 'p' && rcut < 0 {
					rcut = j
					retry = ri == 0
				}
				ri++
			}
			if rcut >= 0 {
				kept := append([]bsOp{}, ops[:rcut+1]...)
				if retry {
					kept = append(kept, ops[rcut])
				}
				kept = append(kept, bsOp{kind: "rc"})
				cs.ops, ops = kept, kept
			}
		}
		line := cs.line()
		obs, bad := runBSCase(cs, check)
		fmt.Fprintln(cases, line)
		fmt.Fprintln(gout, obs)
		c.Count("evaluations", 1)
		c.Count("ops", len(ops))
		flushCross := false
		unaligned := false
		tot := 0
		for _, o := range wops {
			if o.kind == "wa" {
				if tot%8 != 0 && o.count >= 64 {
					unaligned = true
				}
				if (tot/8)/(cs.wbuf-8) != ((tot+int(o.count))/8)/(cs.wbuf-8) {
					flushCross = true
				}
			}
			switch o.kind {
			case "wb":
				tot++
			default:
				tot += int(o.count)
			}
		}
		c.Hist("shape", fmt.Sprintf("flushcross=%v unaligned_array=%v", flushCross, unaligned))
		c.Hist("wbuf", strconv.Itoa(cs.wbuf))
		if !seen[line] {
			seen[line] = true
			if flushCross || unaligned {
				nontrivial++
			}
		}
		if bad != "" {
			c.Violation(map[string]any{"what": bad, "case": line})
		}
		if len(c.Stats["samples"].([]any)) < 3 && len(line) < 900 {
			c.Stats["samples"] = append(c.Stats["samples"].([]any), line)
		}
	}
	c.Stats["distinct_nontrivial"] = nontrivial
}
