package main

// Shared machinery for the stream-level checks (C01 C02 C04 C05 C06 C08 C09 C11 C17):
// data shapes, configurations, compress / decompress helpers, an independent parser of the
// container format.

import (
	"bytes"
	"errors"
	"fmt"
	stdio "io"
	"strings"
	"time"

	kio "github.com/flanglet/kanzi-go/v2/io"
)

var transformNames = []string{"TEXT", "BWT", "BWTS", "ROLZ", "ROLZX", "LZ", "LZX", "LZP", "UTF", "MM", "SRT", "RANK", "MTFT", "ZRLT", "RLT", "EXE", "PACK", "DNA", "NONE"}
var entropyNames = []string{"NONE", "HUFFMAN", "ANS0", "ANS1", "RANGE", "FPAQ", "CM", "TPAQ", "TPAQX"}
var fastEntropy = []string{"NONE", "HUFFMAN", "ANS0", "ANS1", "RANGE", "FPAQ"}

// ---------------------------------------------------------------- data shapes
var words = strings.Fields("the of and to in is was that for it with as his on be at by this had not are but from or have an they which one you were her all she there would their we him been has when who will more no if out so said what up its about into than them can only other new some could time these two may then do first any my now such like our over man me even most made after also did many before must through back years where much your way well down should because each just those people how too little state good very make world still own see men work long get here between both life being under never day same another know while last might us great old year off come since against go came right used take three")

func genData(r *Rng, shape string, n int) []byte {
	b := make([]byte, 0, n+64)
	switch shape {
	case "text":
		for len(b) < n {
			w := words[r.Intn(len(words))]
			if r.Intn(12) == 0 {
				w = strings.ToUpper(w[:1]) + w[1:]
			}
			b = append(b, w...)
			switch r.Intn(14) {
			case 0:
				b = append(b, '.', '\n')
			case 1:
				b = append(b, ',', ' ')
			case 2:
				b = append(b, '\r', '\n')
			default:
				b = append(b, ' ')
			}
		}
	case "crlf", "crlfcut", "crlflone":
		// DOS text; "crlfcut": the block starts with the LF and ends with the CR of pairs cut by the block
		// boundaries; "crlflone": one LF without CR, and a trailing CR
		if shape == "crlfcut" {
			b = append(b, '\n')
		}
		lone := -1
		if shape == "crlflone" {
			lone = r.Intn(n/2 + 1)
		}
		for len(b) < n-1 {
			w := words[r.Intn(len(words))]
			b = append(b, w...)
			if lone >= 0 && len(b) >= lone {
				b = append(b, '\n')
				lone = -1
				continue
			}
			if r.Intn(9) == 0 {
				b = append(b, '\r', '\n')
			} else {
				b = append(b, ' ')
			}
		}
		if len(b) > n-1 {
			b = b[:n-1]
			for k := range b { // no CR or LF split by the truncation
				if k == len(b)-1 && (b[k] == '\r' || b[k] == '\n') {
					b[k] = ' '
				}
			}
			if len(b) > 1 && b[len(b)-2] == '\r' {
				b[len(b)-2] = ' '
			}
		}
		if shape == "crlf" {
			b = append(b, ' ')
		} else {
			b = append(b, '\r')
		}
		return b
	case "utf8":
		// many distinct code points (2-4 byte sequences) mixed with ascii
		ranges := [][2]int{{0x400, 0x4ff}, {0x3040, 0x30ff}, {0x4e00, 0x9fff}, {0x1f600, 0x1f64f}, {0x80, 0x7ff}}
		wide := r.Intn(3) == 0
		for len(b) < n {
			if r.Intn(5) == 0 {
				b = append(b, ' ')
				continue
			}
			rg := ranges[r.Intn(len(ranges))]
			span := rg[1] - rg[0]
			if !wide && span > 90 {
				span = 90
			}
			b = append(b, []byte(string(rune(rg[0]+r.Intn(span+1))))...)
		}
	case "runs+esc": // run-rich data with the default escape byte of RLT (0xFB) inside, in particular among the last bytes
		b = genData(r, "runs", n)
		for k := r.Range(1, 6); k > 0 && len(b) > 0; k-- {
			b[r.Intn(len(b))] = 0xFB
		}
		for k := 1; k <= 8 && k <= len(b); k++ {
			if r.Intn(3) == 0 {
				b[len(b)-k] = 0xFB
			}
		}
		if len(b) >= 5 && r.Bool() {
			b[len(b)-5] = 0xFB
		}
	case "utf8bad": // valid UTF-8 except for a few long sequences whose 3rd or 4th byte is an ASCII character
		b = genData(r, "utf8", n)
		for k := 1 + r.Intn(2); k > 0 && len(b) > 8; k-- {
			// find a lead byte of a 3- or 4-byte sequence from a random position
			for i := r.Intn(len(b) - 4); i < len(b)-4; i++ {
				if b[i] >= 0xE0 && b[i] < 0xF8 {
					ln := 3
					if b[i] >= 0xF0 {
						ln = 4
					}
					pos := i + 2 + r.Intn(ln-2) // 3rd or 4th byte: the pair statistics of the quick validation do not see it
					b[pos] = []byte{0x41, 0x20, 0x30, 0x7A}[r.Intn(4)]
					break
				}
			}
		}
	case "dna":
		al := "ACGT"
		for len(b) < n {
			b = append(b, al[r.Intn(4)])
			if r.Intn(200) == 0 {
				b = append(b, 'N')
			}
			if len(b)%61 == 60 {
				b = append(b, '\n')
			}
		}
	case "exe":
		b = append(b, 0x7f, 'E', 'L', 'F', 2, 1, 1, 0, 0, 0, 0, 0, 0, 0, 0, 0, 2, 0, 0x3e, 0)
		for len(b) < n {
			switch r.Intn(6) {
			case 0:
				a := uint32(len(b)) + uint32(r.Intn(4000))
				b = append(b, 0xE8, byte(a), byte(a>>8), byte(a>>16), 0)
			case 1:
				b = append(b, 0x48, 0x89, byte(0xC0+r.Intn(64)))
			case 2:
				b = append(b, 0x0F, byte(0x80+r.Intn(16)), byte(r.Intn(256)), byte(r.Intn(4)), 0, 0)
			default:
				b = append(b, byte(r.Intn(256)))
			}
		}
	case "mm":
		b = append(b, "RIFF"...)
		b = append(b, 0, 0, 1, 0)
		b = append(b, "WAVEfmt "...)
		b = append(b, 16, 0, 0, 0, 1, 0, 2, 0, 0x44, 0xac, 0, 0, 0x10, 0xb1, 2, 0, 4, 0, 16, 0)
		b = append(b, "data"...)
		b = append(b, 0, 0, 1, 0)
		v1, v2 := 0, 0
		for len(b) < n {
			v1 += r.Intn(200) - 100
			v2 += r.Intn(120) - 60
			b = append(b, byte(v1), byte(v1>>8), byte(v2), byte(v2>>8))
		}
	case "runs":
		for len(b) < n {
			c := byte(r.Intn(4) * 85)
			if r.Intn(3) == 0 {
				c = 0
			}
			l := 1 + r.Intn(1+r.Intn(300))
			for i := 0; i < l; i++ {
				b = append(b, c)
			}
		}
	case "skewed":
		// few dominant symbols + many rare ones (stresses frequency scaling)
		k := 2 + r.Intn(5)
		for len(b) < n {
			if r.Intn(40) == 0 {
				b = append(b, byte(r.Intn(256)))
			} else {
				b = append(b, byte(r.Intn(k)*37))
			}
		}
	case "b64":
		al := "ABCDEFGHIJKLMNOPQRSTUVWXYZabcdefghijklmnopqrstuvwxyz0123456789+/"
		for len(b) < n {
			b = append(b, al[r.Intn(64)])
			if len(b)%77 == 76 {
				b = append(b, '\n')
			}
		}
	case "accent":
		// never-repeating short words, one letter out of five >= 0x80: text that the TEXT
		// transform tends to expand
		for len(b) < n {
			l := 3 + r.Intn(6)
			for j := 0; j < l; j++ {
				if r.Intn(5) == 0 {
					b = append(b, byte(0xC0+r.Intn(0x3F)))
				} else {
					b = append(b, byte('a'+r.Intn(26)))
				}
			}
			b = append(b, ' ')
		}
	case "zeros":
		b = make([]byte, n)
	default: // random
		for len(b) < n {
			x := r.U64()
			b = append(b, byte(x), byte(x>>8), byte(x>>16), byte(x>>24), byte(x>>32), byte(x>>40), byte(x>>48), byte(x>>56))
		}
	}
	return b[:n]
}

var dataShapes = []string{"text", "utf8", "dna", "exe", "mm", "runs", "skewed", "b64", "accent", "zeros", "random"}

// ---------------------------------------------------------------- configuration
type sCfg struct {
	Transform  string
	Entropy    string
	Block      uint
	Jobs       uint
	Checksum   uint
	Hint       int64
	Headerless bool
}

func (c sCfg) String() string {
	return fmt.Sprintf("%s/%s bs=%d j=%d ck=%d hint=%d hl=%v", c.Transform, c.Entropy, c.Block, c.Jobs, c.Checksum, c.Hint, c.Headerless)
}

func randChain(r *Rng, maxLen int) string {
	n := 1 + r.Intn(maxLen)
	parts := make([]string, n)
	for i := range parts {
		parts[i] = transformNames[r.Intn(len(transformNames))]
	}
	return strings.Join(parts, "+")
}

type memSink struct {
	buf    bytes.Buffer
	closed bool
	calls  int
}

func (m *memSink) Write(b []byte) (int, error) { m.calls++; return m.buf.Write(b) }
func (m *memSink) Close() error                { m.closed = true; return nil }

// partition: sizes of the successive Write calls (cycled); nil = one Write
func compressTo(sink stdio.WriteCloser, cfg sCfg, data []byte, partition []int) (stage string, err error) {
	defer func() {
		if r := recover(); r != nil {
			stage, err = "panic", fmt.Errorf("PANIC escaped the Writer API: %v", r)
		}
	}()
	w, err := kio.NewWriter(sink, cfg.Transform, cfg.Entropy, cfg.Block, cfg.Jobs, cfg.Checksum, cfg.Hint, cfg.Headerless)
	if err != nil {
		return "new", err
	}
	off := 0
	for i := 0; off < len(data) || (partition != nil && i < len(partition) && len(data) == 0); i++ {
		n := len(data) - off
		if partition != nil {
			n = partition[i%len(partition)]
			if n > len(data)-off {
				n = len(data) - off
			}
		}
		k, err := w.Write(data[off : off+n])
		if err != nil {
			return "write", err
		}
		if k != n {
			return "write", fmt.Errorf("Write returned %d for %d bytes", k, n)
		}
		off += n
		if len(data) == 0 {
			break
		}
	}
	if err := w.Close(); err != nil {
		return "close", err
	}
	return "", nil
}

func compress(cfg sCfg, data []byte, partition []int) ([]byte, string, error) {
	sink := &memSink{}
	st, err := compressTo(sink, cfg, data, partition)
	return sink.buf.Bytes(), st, err
}

func newReader(src stdio.ReadCloser, cfg sCfg, jobs uint, extra map[string]any) (*kio.Reader, error) {
	ctx := map[string]any{"jobs": jobs}
	if cfg.Headerless {
		ctx["transform"] = cfg.Transform
		ctx["entropy"] = cfg.Entropy
		ctx["blockSize"] = cfg.Block
		ctx["checksum"] = cfg.Checksum
		ctx["outputSize"] = cfg.Hint
		ctx["bsVersion"] = uint(6)
		ctx["headerless"] = true
	}
	for k, v := range extra {
		ctx[k] = v
	}
	return kio.NewReaderWithCtx(src, ctx)
}

type readResult struct {
	data    []byte
	err     error // first non-EOF error
	eof     bool
	calls   int
	trail   []string // outcome of every Read call after the first error / EOF
	panic   any
	timeout bool
}

// reads to the end with the given buffer sizes (cycled); after an error or EOF keeps calling
// Read `after` more times and records what comes back.
func readAll(rd *kio.Reader, sizes []int, after int, limit int) (res readResult) {
	defer func() {
		if r := recover(); r != nil {
			res.panic = r
		}
	}()
	if len(sizes) == 0 {
		sizes = []int{65536}
	}
	buf := make([]byte, 0)
	zeroRun := 0
	for i := 0; ; i++ {
		n := sizes[i%len(sizes)]
		if cap(buf) < n {
			buf = make([]byte, n)
		}
		k, err := rd.Read(buf[:n])
		res.calls++
		if res.err == nil && !res.eof {
			res.data = append(res.data, buf[:k]...)
			if err == stdio.EOF {
				res.eof = true
			} else if err != nil {
				res.err = err
			}
			if k == 0 && err == nil {
				zeroRun++
				if n > 0 && zeroRun > 3 {
					res.err = errors.New("Read returned (0, nil) repeatedly for a non-empty buffer")
				}
			} else {
				zeroRun = 0
			}
		} else {
			tag := fmt.Sprintf("n=%d", k)
			if err == stdio.EOF {
				tag += " EOF"
			} else if err != nil {
				tag += " err"
			} else {
				tag += " nil"
			}
			if k > 0 {
				tag += " DATA:" + fmt.Sprintf("%x", buf[:min(k, 16)])
			}
			res.trail = append(res.trail, tag)
			after--
		}
		if (res.err != nil || res.eof) && after <= 0 {
			break
		}
		if limit > 0 && len(res.data) > limit {
			res.err = errors.New("output exceeds the limit")
			break
		}
	}
	return res
}

func decompress(stream []byte, cfg sCfg, jobs uint, sizes []int, after int, extra map[string]any) readResult {
	rd, err := newReader(stdio.NopCloser(bytes.NewReader(stream)), cfg, jobs, extra)
	if err != nil {
		return readResult{err: err}
	}
	return readAll(rd, sizes, after, 0)
}

// with a watchdog: used where a hang is a possible outcome
func decompressTimed(stream []byte, cfg sCfg, jobs uint, sizes []int, after int, extra map[string]any, d time.Duration) readResult {
	ch := make(chan readResult, 1)
	go func() { ch <- decompress(stream, cfg, jobs, sizes, after, extra) }()
	select {
	case r := <-ch:
		return r
	case <-time.After(d):
		return readResult{timeout: true, err: errors.New("timeout")}
	}
}

// ---------------------------------------------------------------- independent container parser
type bitReader struct {
	b   []byte
	pos int // bit position
}

func (r *bitReader) bits(n int) (uint64, bool) {
	if r.pos+n > 8*len(r.b) {
		return 0, false
	}
	var v uint64
	for i := 0; i < n; i++ {
		v = v<<1 | uint64((r.b[(r.pos+i)>>3]>>(7-uint((r.pos+i)&7)))&1)
	}
	r.pos += n
	return v, true
}

type frameInfo struct {
	FrameBit   int // first bit of the frame (5-bit length-of-length field)
	PayloadBit int // first bit of the payload
	PayloadLen int // payload length in bits
	Mode       byte
	Len        int // length field of the payload prefix (post-transform length)
	DataBit    int // first bit after mode/skipflags/length/checksum (entropy coded data)
}

type containerInfo struct {
	HeaderBits int
	Checksum   int // 0, 32, 64
	Entropy    uint64
	Transform  uint64
	Block      int
	SzMask     int
	Hint       uint64
	Frames     []frameInfo
	EndBit     int // first bit of the end marker
	TotalBits  int // bit after the end marker
	OK         bool
	Why        string
}

func parseContainer(s []byte, headerless bool, cksum int) containerInfo {
	ci := containerInfo{Checksum: cksum}
	r := &bitReader{b: s}
	fail := func(w string) containerInfo { ci.Why = w; return ci }
	if !headerless {
		magic, ok := r.bits(32)
		if !ok || magic != 0x4B414E5A {
			return fail("magic")
		}
		ver, _ := r.bits(4)
		if ver != 6 {
			return fail("version")
		}
		ck, _ := r.bits(2)
		ci.Checksum = int(ck) * 32
		ci.Entropy, _ = r.bits(5)
		ci.Transform, _ = r.bits(48)
		bsz, _ := r.bits(28)
		ci.Block = int(bsz) << 4
		m, _ := r.bits(2)
		ci.SzMask = int(m)
		if m > 0 {
			ci.Hint, _ = r.bits(16 * int(m))
		}
		r.bits(15)
		if _, ok := r.bits(24); !ok {
			return fail("short header")
		}
		ci.HeaderBits = r.pos
	}
	for {
		fb := r.pos
		lw, ok := r.bits(5)
		if !ok {
			return fail("truncated frame header")
		}
		ln, ok := r.bits(int(lw) + 3)
		if !ok {
			return fail("truncated frame length")
		}
		if ln == 0 {
			ci.EndBit = fb
			ci.TotalBits = r.pos
			ci.OK = true
			return ci
		}
		f := frameInfo{FrameBit: fb, PayloadBit: r.pos, PayloadLen: int(ln)}
		if r.pos+int(ln) > 8*len(s) {
			return fail("truncated payload")
		}
		pr := &bitReader{b: s, pos: r.pos}
		mode, _ := pr.bits(8)
		f.Mode = byte(mode)
		if mode&0x80 == 0 && mode&0x10 != 0 {
			pr.bits(8)
		}
		ds := 1 + int((mode>>5)&3)
		ln2, _ := pr.bits(8 * ds)
		f.Len = int(ln2)
		if ci.Checksum > 0 {
			pr.bits(ci.Checksum)
		}
		f.DataBit = pr.pos
		ci.Frames = append(ci.Frames, f)
		r.pos += int(ln)
	}
}

func flipBit(s []byte, bit int) { s[bit>>3] ^= 1 << (7 - uint(bit&7)) }

func min64(a, b int64) int64 {
	if a < b {
		return a
	}
	return b
}
