package main

// Correspondence cases for the Writer / Reader state-machine models (coq/Model/Writer.v,
// Reader.v): the same operation sequences are run on the Go objects and (by ocaml/driver.ml,
// commands "wr" and "rd") on the extracted models; observables are compared token by token.

import (
	"bytes"
	"errors"
	"fmt"
	stdio "io"
	"strings"
	"time"

	kio "github.com/flanglet/kanzi-go/v2/io"
)

func dataByte(i int) byte { return byte((i*7 + i/256) & 255) }

func sumBytes(b []byte) int {
	a := 7
	for _, x := range b {
		a = (a*31 + int(x)) & 0xFFFFFFF
	}
	return a
}

func init() {
	commands["wrm"] = runWrm
	commands["rdm"] = runRdm
}

func errTag(err error) string {
	if err != nil {
		return "err"
	}
	return "ok"
}

func runWrm(c *Ctx, _ []string) {
	r := NewRng(c.Seed ^ 0x5757)
	cases := c.W("cases.txt")
	gout := c.W("go.txt")
	c.Stats["samples"] = []any{}
	n := 250 * c.Scale
	nontrivial := 0
	for i := 0; i < n; i++ {
		B := []int{1024, 1024, 2048, 4096}[r.Intn(4)]
		jobs := r.Range(1, 6)
		if r.Intn(6) == 0 {
			jobs = r.Range(7, 64)
		}
		total := 0
		type op struct {
			kind string
			n    int
		}
		ops := []op{}
		nw := r.Range(0, 12)
		for k := 0; k < nw; k++ {
			var ln int
			switch r.Intn(7) {
			case 0:
				ln = 0
			case 1:
				ln = B
			case 2:
				ln = B*jobs + r.Range(-3, 3)
			case 3:
				ln = r.Range(1, 40)
			default:
				ln = r.Intn(3*B + 1)
			}
			if ln < 0 {
				ln = 0
			}
			if total+ln > 60000 {
				ln = r.Intn(100)
			}
			ops = append(ops, op{"w", ln})
			total += ln
		}
		ops = append(ops, op{"c", 0})
		if r.Intn(3) == 0 {
			ops = append(ops, op{"c", 0})
		}
		if r.Intn(3) == 0 {
			ops = append(ops, op{"w", r.Intn(50)}, op{"c", 0})
		}
		// hint: absent / exact / smaller / larger -> nbInputBlocks
		hint := int64(0)
		switch r.Intn(4) {
		case 1:
			hint = int64(total)
		case 2:
			hint = int64(r.Intn(total + 1))
		case 3:
			hint = int64(total + r.Intn(5*B))
		}
		hb := int((hint + int64(B) - 1) / int64(B))
		if hb > 63 {
			hb = 63
		}
		failid := 0
		if r.Intn(5) == 0 && total > 0 {
			failid = r.Range(1, total/B+1)
		}
		sb := strings.Builder{}
		fmt.Fprintf(&sb, "wr %d %d %d %d", B, jobs, hb, failid)
		for _, o := range ops {
			if o.kind == "w" {
				fmt.Fprintf(&sb, " ; w %d", o.n)
			} else {
				sb.WriteString(" ; c 0 0")
			}
		}
		line := sb.String()
		// run on the Go Writer
		sink := &memSink{}
		if failid > 0 {
			fid := int32(failid)
			var h kio.VerifController = func(side, site int, id int32, cnt int32) {
				if side == kio.VerifEnc && site == kio.VerifHold && id == fid {
					panic(errors.New("injected task failure"))
				}
			}
			kio.VerifHook.Store(&h)
		}
		w, err := kio.NewWriter(sink, "NONE", "NONE", uint(B), uint(jobs), 0, hint, false)
		out := strings.Builder{}
		closedOK := false
		c.Watchdog(60*time.Second, map[string]any{"case": line}, func() {
			defer func() {
				if e := recover(); e != nil {
					closedOK = false
					fmt.Fprintf(&out, "PANIC:%s ", strings.ReplaceAll(fmt.Sprint(e), " ", "_"))
				}
			}()
			if err != nil {
				out.WriteString("NEWERR ")
			} else {
				pos := 0
				for _, o := range ops {
					if o.kind == "w" {
						buf := make([]byte, o.n)
						for k := range buf {
							buf[k] = dataByte(pos + k)
						}
						pos += o.n
						k, err := w.Write(buf)
						fmt.Fprintf(&out, "W%d:%s ", k, errTag(err))
					} else {
						cerr := w.Close()
						closedOK = cerr == nil
						fmt.Fprintf(&out, "C:%s ", errTag(cerr))
					}
				}
			}
		})
		kio.VerifHook.Store(nil)
		ci := parseContainer(sink.buf.Bytes(), false, 0)
		for k, f := range ci.Frames {
			if !closedOK {
				break
			}
			raw := make([]byte, f.Len)
			br := &bitReader{b: sink.buf.Bytes(), pos: f.DataBit}
			for j := range raw {
				v, _ := br.bits(8)
				raw[j] = byte(v)
			}
			fmt.Fprintf(&out, "[%d:%d:%d] ", k+1, f.Len, sumBytes(raw))
		}
		fmt.Fprintln(cases, line)
		fmt.Fprintln(gout, out.String())
		c.Count("evaluations", 1)
		c.Hist("hint", []string{"absent", "exact", "smaller", "larger"}[map[bool]int{true: 0, false: 1}[hint == 0]*0+func() int {
			switch {
			case hint == 0:
				return 0
			case hint == int64(total):
				return 1
			case hint < int64(total):
				return 2
			}
			return 3
		}()])
		c.Hist("failure_injected", fmt.Sprint(failid > 0))
		if total > B {
			nontrivial++
		}
		if len(c.Stats["samples"].([]any)) < 3 {
			c.Stats["samples"] = append(c.Stats["samples"].([]any), line)
		}
	}
	c.Stats["distinct_nontrivial"] = nontrivial
}

func runRdOps(rd *kio.Reader, ops []string, out *strings.Builder) {
	for _, o := range ops {
		if o == "c" {
			rd.Close()
			out.WriteString("C ")
			continue
		}
		var ln int
		fmt.Sscanf(o, "r %d", &ln)
		buf := make([]byte, ln)
		k, err := rd.Read(buf)
		tag := "nil"
		if err == stdio.EOF {
			tag = "eof"
		} else if err != nil {
			tag = "err"
		}
		fmt.Fprintf(out, "R%d:%s:%d ", k, tag, sumBytes(buf[:k]))
	}
}

func runRdm(c *Ctx, _ []string) {
	r := NewRng(c.Seed ^ 0x5252)
	cases := c.W("cases.txt")
	gout := c.W("go.txt")
	c.Stats["samples"] = []any{}
	n := 300 * c.Scale
	nontrivial := 0
	for i := 0; i < n; i++ {
		B := []int{1024, 1024, 2048}[r.Intn(3)]
		nb := r.Range(0, 10)
		lastlen := B
		if nb > 0 && r.Bool() {
			lastlen = r.Range(1, B)
		}
		size := 0
		if nb > 0 {
			size = (nb-1)*B + lastlen
		}
		data := make([]byte, size)
		for k := range data {
			data[k] = dataByte(k)
		}
		hint := int64(0)
		if r.Bool() {
			hint = int64(size)
		}
		hb := int((hint + int64(B) - 1) / int64(B))
		if hb > 63 {
			hb = 63
		}
		cfg := sCfg{"NONE", "NONE", uint(B), uint(r.Range(1, 4)), 32, hint, false}
		stream, _, err := compress(cfg, data, nil)
		if err != nil {
			continue
		}
		ci := parseContainer(stream, false, 0)
		if !ci.OK || len(ci.Frames) != nb {
			c.Violation(map[string]any{"what": "independent parser disagrees with the writer on the number of blocks", "cfg": cfg.String(), "len": size})
			continue
		}
		jobs := r.Range(1, 5)
		if r.Intn(8) == 0 {
			jobs = r.Range(6, 64)
		}
		from, to := 0, 0
		if r.Intn(3) == 0 {
			from = r.Range(1, nb+2)
			to = r.Range(from, nb+3)
			if r.Intn(4) == 0 {
				to = 0
			}
		}
		bad := 0
		if nb > 0 && r.Intn(4) == 0 {
			bad = r.Range(1, nb)
			f := ci.Frames[bad-1]
			flipBit(stream, f.DataBit+r.Intn(8*f.Len))
		}
		endm := 1
		mnb, mlast := nb, lastlen
		if r.Intn(5) == 0 { // truncated right before the end marker
			endm = 0
			stream = stream[:ci.EndBit/8]
			if ci.EndBit%8 != 0 && nb > 0 { // the last frame lost its final bits
				mnb = nb - 1
				mlast = B
				if bad == nb {
					bad = 0
				}
			}
		}
		ops := []string{}
		nr := r.Range(1, 14)
		for k := 0; k < nr; k++ {
			switch r.Intn(8) {
			case 0:
				ops = append(ops, "r 0")
			case 1:
				ops = append(ops, fmt.Sprintf("r %d", B))
			case 2:
				ops = append(ops, fmt.Sprintf("r %d", jobs*B+r.Range(-2, 2)))
			case 3:
				ops = append(ops, fmt.Sprintf("r %d", r.Range(1, 30)))
			default:
				ops = append(ops, fmt.Sprintf("r %d", r.Intn(4*B)))
			}
		}
		ops = append(ops, "r 100000", "r 10", "r 0")
		if r.Intn(3) == 0 {
			ops = append(ops, "c", "r 5", "c")
		}
		line := fmt.Sprintf("rd %d %d %d %d %d %d %d %d %d ; %s", B, jobs, hb, from, to, mnb, mlast, bad, endm, strings.Join(ops, " ; "))
		extra := map[string]any{}
		if from > 0 {
			extra["from"] = from
		}
		if to > 0 {
			extra["to"] = to
		}
		rd, err := newReader(stdio.NopCloser(bytes.NewReader(stream)), cfg, uint(jobs), extra)
		out := strings.Builder{}
		if err != nil {
			out.WriteString("NEWERR ")
		} else {
			func() {
				defer func() {
					if e := recover(); e != nil {
						fmt.Fprintf(&out, "PANIC:%s ", strings.ReplaceAll(fmt.Sprint(e), " ", "_"))
					}
				}()
				runRdOps(rd, ops, &out)
			}()
		}
		fmt.Fprintln(cases, line)
		fmt.Fprintln(gout, out.String())
		c.Count("evaluations", 1)
		c.Hist("range", fmt.Sprint(from > 0))
		c.Hist("damaged_block", fmt.Sprint(bad > 0))
		c.Hist("truncated", fmt.Sprint(endm == 0))
		if nb > 1 {
			nontrivial++
		}
		if len(c.Stats["samples"].([]any)) < 3 {
			c.Stats["samples"] = append(c.Stats["samples"].([]any), line)
		}
	}
	c.Stats["distinct_nontrivial"] = nontrivial
}
