package main

// C15: codec names. Table lookups on every case variant and on chains, compared with the
// model built from the regenerated tables (driver command "nm"), and stream bytes for
// non-canonical spellings compared with the canonical spelling.

import (
	"bytes"
	"fmt"
	"strings"

	"github.com/flanglet/kanzi-go/v2/entropy"
	"github.com/flanglet/kanzi-go/v2/transform"
)

func init() { commands["c15"] = runC15 }

func caseVariants(name string) []string {
	n := len(name)
	out := []string{}
	for m := 0; m < 1<<uint(n); m++ {
		b := []byte(name)
		for i := 0; i < n; i++ {
			if m&(1<<uint(i)) != 0 && b[i] >= 'A' && b[i] <= 'Z' {
				b[i] += 32
			}
		}
		out = append(out, string(b))
	}
	return out
}

func randCase(r *Rng, s string) string {
	b := []byte(s)
	for i := range b {
		if b[i] >= 'A' && b[i] <= 'Z' && r.Bool() {
			b[i] += 32
		}
	}
	return string(b)
}

func canonicalChain(chain string) string {
	parts := []string{}
	for _, p := range strings.Split(strings.ToUpper(chain), "+") {
		if p != "NONE" {
			parts = append(parts, p)
		}
	}
	if len(parts) == 0 {
		return "NONE"
	}
	return strings.Join(parts, "+")
}

func runC15(c *Ctx, _ []string) {
	r := NewRng(c.Seed ^ 0x1515)
	cases := c.W("cases.txt")
	gout := c.W("go.txt")
	c.Stats["samples"] = []any{}
	nontrivial := 0
	tcase := func(name string) {
		if strings.ContainsAny(name, " ;\n") || name == "" {
			return
		}
		c.Count("evaluations", 1)
		fmt.Fprintf(cases, "nm t %s\n", name)
		v, err := transform.GetType(name)
		if err != nil {
			fmt.Fprintln(gout, "err")
			return
		}
		fmt.Fprintf(gout, "ok %d\n", v)
		// the property, directly on the implementation
		up, err2 := transform.GetType(strings.ToUpper(name))
		if err2 != nil || up != v {
			c.Violation(map[string]any{"what": fmt.Sprintf("GetType(%q) = %d but GetType(%q) = %d (%v)", name, v, strings.ToUpper(name), up, err2)})
		}
		back, err3 := transform.GetName(v)
		fmt.Fprintf(cases, "nm T %d\n", v)
		if err3 != nil {
			fmt.Fprintln(gout, "err")
		} else {
			fmt.Fprintf(gout, "ok %s\n", back)
		}
		if err3 != nil || back != canonicalChain(name) {
			c.Violation(map[string]any{"what": fmt.Sprintf("GetName(GetType(%q)) = %q, canonical name is %q", name, back, canonicalChain(name))})
		}
		if strings.Contains(name, "+") {
			nontrivial++
		}
	}
	ecase := func(name string) {
		if strings.ContainsAny(name, " ;\n") || name == "" {
			return
		}
		c.Count("evaluations", 1)
		fmt.Fprintf(cases, "nm e %s\n", name)
		v, err := entropy.GetType(name)
		if err != nil {
			fmt.Fprintln(gout, "err")
			return
		}
		fmt.Fprintf(gout, "ok %d\n", v)
		back, err2 := entropy.GetName(v)
		if err2 != nil || back != strings.ToUpper(name) {
			c.Violation(map[string]any{"what": fmt.Sprintf("entropy GetName(GetType(%q)) = %q", name, back)})
		}
	}
	// every case variant of every name (exhaustive)
	for _, n := range transformNames {
		for _, v := range caseVariants(n) {
			tcase(v)
		}
	}
	for _, n := range entropyNames {
		for _, v := range caseVariants(n) {
			ecase(v)
		}
	}
	// type -> name for every 6-bit / 5-bit value
	for t := 0; t < 64; t++ {
		fmt.Fprintf(cases, "nm T %d\n", uint64(t)<<42)
		if s, err := transform.GetName(uint64(t) << 42); err != nil {
			fmt.Fprintln(gout, "err")
		} else {
			fmt.Fprintf(gout, "ok %s\n", s)
		}
		fmt.Fprintf(cases, "nm E %d\n", t)
		if s, err := entropy.GetName(uint32(t)); err != nil {
			fmt.Fprintln(gout, "err")
		} else {
			fmt.Fprintf(gout, "ok %s\n", s)
		}
		c.Count("evaluations", 2)
	}
	// all chains of length 2 and 3 (exhaustive, random letter case), random chains up to 9
	for _, a := range transformNames {
		for _, b := range transformNames {
			tcase(randCase(r, a+"+"+b))
			if c.Scale > 1 || r.Intn(4) == 0 {
				for _, d := range transformNames {
					tcase(randCase(r, a+"+"+b+"+"+d))
				}
			}
		}
	}
	for i := 0; i < 400*c.Scale; i++ {
		n := r.Range(1, 9)
		parts := make([]string, n)
		for j := range parts {
			parts[j] = transformNames[r.Intn(len(transformNames))]
			if r.Intn(3) == 0 {
				parts[j] = "NONE"
			}
		}
		tcase(randCase(r, strings.Join(parts, "+")))
	}
	// full chains: exactly 8 transforms (every slot of the packed type in use), alone and with NONE fillers around them
	for i := 0; i < 40*c.Scale; i++ {
		parts := make([]string, 0, 11)
		for len(parts) < 8 {
			t := transformNames[r.Intn(len(transformNames))]
			if t != "NONE" {
				parts = append(parts, t)
			}
		}
		if i%8 == 0 {
			parts[7] = []string{"ROLZX", "LZX", "LZP", "ROLZ"}[r.Intn(4)]
		}
		tcase(randCase(r, strings.Join(parts, "+")))
		withNone := append([]string{}, parts...)
		pos := r.Intn(9)
		withNone = append(withNone[:pos], append([]string{"NONE"}, withNone[pos:]...)...)
		tcase(randCase(r, strings.Join(withNone, "+")))
	}
	for _, bad := range []string{"LZZ", "TPAQY", "BWTT", "X", "LZ+", "+LZ", "LZ++ROLZ", "NONE+", "TEXT+FOO", "lz+lzq", "ROLZXX"} {
		tcase(bad)
		ecase(bad)
	}
	// end to end: a non-canonical spelling must give exactly the stream of the canonical one
	type pair struct{ t, e, shape string }
	pairs := []pair{{"ROLZX", "NONE", "text"}, {"ROLZ", "ANS0", "text"}, {"NONE", "TPAQX", "text"}, {"TEXT", "TPAQX", "text"}, {"TEXT", "TPAQ", "text"},
		{"RLT", "HUFFMAN", "runs"}, {"RLT", "FPAQ", "runs"}, {"TEXT", "ANS0", "text"}, {"TEXT", "CM", "text"}, {"TEXT+RLT", "RANGE", "text"},
		{"LZX", "NONE", "text"}, {"LZP+TEXT", "HUFFMAN", "text"}, {"ROLZX+ROLZ", "NONE", "text"}, {"NONE+LZ", "HUFFMAN", "text"}, {"TEXT+NONE+BWT", "ANS1", "text"},
		{"NONE+ROLZX", "NONE", "text"}, {"ROLZX+NONE", "HUFFMAN", "text"}, {"MM+EXE+UTF+DNA+PACK+ZRLT+RLT+ROLZX", "NONE", "text"}, {"RLT+ZRLT+PACK+MM+UTF+EXE+SRT+LZX", "HUFFMAN", "text"}, {"NONE+LZX", "NONE", "text"}, {"RLT+ROLZX", "NONE", "runs"}}
	for i := 0; i < 6*c.Scale; i++ {
		pairs = append(pairs, pair{randChain(r, 3), entropyNames[r.Intn(len(entropyNames))], dataShapes[r.Intn(len(dataShapes))]})
	}
	for _, p := range pairs {
		data := mkData(p.shape, 30000, 42)
		canon := sCfg{canonicalChain(p.t), p.e, 16384, 1, 32, 0, false}
		ref, stage, err := compress(canon, data, nil)
		if stage != "" || err != nil {
			continue
		}
		for _, variant := range []sCfg{
			{strings.ToLower(p.t), strings.ToLower(p.e), 16384, 1, 32, 0, false},
			{randCase(r, p.t), randCase(r, p.e), 16384, 1, 32, 0, false},
			{p.t, strings.ToLower(p.e), 16384, 1, 32, 0, false}} {
			out, stage, err := compress(variant, data, nil)
			c.Count("evaluations", 1)
			nontrivial++
			what := ""
			if stage != "" || err != nil {
				what = fmt.Sprintf("spelling %s/%s rejected or failed at %s: %v", variant.Transform, variant.Entropy, stage, err)
			} else if !bytes.Equal(out, ref) {
				what = fmt.Sprintf("spelling %s/%s gives a different stream than %s/%s (%s vs %s)", variant.Transform, variant.Entropy, canon.Transform, canon.Entropy, short(out), short(ref))
			} else {
				res := decompress(out, variant, 2, nil, 0, nil)
				if res.err != nil || !bytes.Equal(res.data, data) {
					what = fmt.Sprintf("stream written with %s/%s does not decode: %v", variant.Transform, variant.Entropy, res.err)
				}
			}
			if what != "" {
				c.Violation(map[string]any{"what": what, "data": describe(p.shape, 30000, 42)})
			}
		}
	}
	// a named stage inside a chain is the same function as the stage alone: the variant chosen for a name (ROLZ vs ROLZX,
	// LZ vs LZX) does not depend on what else is in the chain
	fwd := func(name string, in []byte) ([]byte, byte, string) {
		ctx := map[string]any{"transform": name, "entropy": "NONE", "blockSize": uint(65536), "size": uint(len(in)), "bsVersion": uint(6), "jobs": uint(1)}
		packed, err := transform.GetType(name)
		if err != nil {
			return nil, 0, err.Error()
		}
		t, err := transform.New(&ctx, packed)
		if err != nil {
			return nil, 0, err.Error()
		}
		dst := make([]byte, t.MaxEncodedLen(len(in)))
		_, o, _ := t.Forward(append([]byte{}, in...), dst)
		return dst[:o], t.SkipFlags(), ""
	}
	type pr struct{ a, b string }
	var prs []pr
	for _, a := range []string{"RLT", "ZRLT", "SRT", "RANK", "MTFT"} {
		for _, b := range []string{"ROLZX", "ROLZ", "LZX", "LZ", "LZP"} {
			prs = append(prs, pr{a, b})
		}
	}
	// two members of the same family in one chain: the variant of a slot must not leak into the next one
	fam := []string{"LZ", "LZX", "LZP", "ROLZ", "ROLZX"}
	for _, a := range fam {
		for _, b := range fam {
			if a != b {
				prs = append(prs, pr{a, b})
			}
		}
	}
	for _, ab := range prs {
		a, b := ab.a, ab.b
		{
			for _, chain := range [][]string{{a, b}, {b, a}, {"NONE", b}, {b, "NONE", a}} {
				for _, shape := range []string{"text", "runs"} {
					data := mkData(shape, 20000, 43)
					whole, flags, e1 := fwd(randCase(r, strings.Join(chain, "+")), data)
					c.Count("evaluations", 1)
					nontrivial++
					cur := data
					bit := byte(0x80)
					var want byte = 0xFF
					e2 := ""
					for _, st := range chain {
						if st == "NONE" {
							continue
						}
						out, fl, e := fwd(st, cur)
						if e != "" {
							e2 = e
							break
						}
						if fl&0x80 == 0 {
							cur = out
							want &^= bit
						}
						bit >>= 1
					}
					if e1 != "" || e2 != "" {
						c.Violation(map[string]any{"what": fmt.Sprintf("chain %v: construction failed: %s %s", chain, e1, e2)})
					} else if flags != want || !bytes.Equal(whole, cur) {
						c.Violation(map[string]any{"what": fmt.Sprintf("chain %v is not the composition of its named stages (skip flags %02x vs %02x, %s vs %s)", chain, flags, want, short(whole), short(cur)),
							"key": "impl:stage-composition:" + canonicalChain(strings.Join(chain, "+")), "data": describe(shape, 20000, 43)})
					}
				}
			}
		}
	}
	c.Stats["samples"] = []any{"nm t rOlZx", "nm t none+LZ+None+bwt", "stream text/tpaqx vs TEXT/TPAQX"}
	c.Stats["exhaustive"] = true
	c.Stats["distinct_nontrivial"] = nontrivial
}
