package main

// ctm: whole NONE/NONE and NONE/RANGE streams against the extracted container models (Model/Container.v, Model/ContainerG.v: header,
// per-block frames with their nested bit stream, end marker): the stream bytes the Writer produces,
// and what the model parses back from them.  Block hashes are computed here with the Go hashers and
// handed to the model.

import (
	"encoding/hex"
	"fmt"
	"strings"
	"time"

	"github.com/flanglet/kanzi-go/v2/hash"
	kio "github.com/flanglet/kanzi-go/v2/io"
)

func init() { commands["ctm"] = runCtm; commands["xxm"] = runXxm }

// xxm: XXHash32 / XXHash64 (seed = bit stream type, as the container uses them) against Model/XXHash.v:
// every length 0..130 (all the tail paths: 32/16-byte stripes, 8- and 4-byte words, single bytes), then random lengths
func runXxm(c *Ctx, _ []string) {
	r := NewRng(c.Seed ^ 0x7878)
	cases := c.W("cases.txt")
	gout := c.W("go.txt")
	h32, _ := hash.NewXXHash32(0x4B414E5A)
	h64, _ := hash.NewXXHash64(0x4B414E5A)
	one := func(data []byte) {
		hx := "-"
		if len(data) > 0 {
			hx = hex.EncodeToString(data)
		}
		fmt.Fprintf(cases, "xx 1 %s\n", hx)
		fmt.Fprintf(gout, "%d\n", h32.Hash(data))
		fmt.Fprintf(cases, "xx 2 %s\n", hx)
		fmt.Fprintf(gout, "%d\n", h64.Hash(data))
		c.Count("evaluations", 2)
	}
	for n := 0; n <= 130; n++ {
		one(genData(r, []string{"random", "text", "zeros"}[n%3], n)[:n])
	}
	for i := 0; i < 60*c.Scale; i++ {
		n := r.Range(131, 5000)
		d := genData(r, []string{"random", "text", "runs", "zeros"}[r.Intn(4)], n)
		if len(d) > n {
			d = d[:n]
		}
		if r.Intn(4) == 0 {
			for j := range d {
				d[j] = 0xFF
			}
		}
		one(d)
	}
	c.Stats["distinct_nontrivial"] = 2 * (131 + 60*c.Scale)
}

func runCtm(c *Ctx, _ []string) {
	r := NewRng(c.Seed ^ 0xc7a1)
	cases := c.W("cases.txt")
	gout := c.W("go.txt")
	n := 60 * c.Scale
	nontrivial := 0
	for i := 0; i < n; i++ {
		bs := uint(1024)
		if r.Intn(3) == 0 {
			bs = uint(16 * r.Range(64, 160))
		}
		ck := []uint{0, 32, 64}[r.Intn(3)]
		size := 0
		switch r.Intn(6) {
		case 0:
			size = 0
		case 1:
			size = r.Range(1, 16)
		case 2:
			size = r.Range(200, 300)
		case 3:
			size = int(bs) * r.Range(1, 3)
		default:
			size = r.Range(17, 3*int(bs)+50)
		}
		data := genData(r, []string{"text", "random", "zeros", "runs"}[r.Intn(4)], size)
		if len(data) > size {
			data = data[:size]
		}
		hint := int64(0)
		if r.Bool() {
			hint = int64(len(data))
		}
		jobs := uint(r.Range(1, 3))
		ent, entCode := "NONE", 0
		if r.Bool() {
			ent, entCode = "RANGE", 4
		}
		sink := &memSink{}
		w, err := kio.NewWriter(sink, "NONE", ent, bs, jobs, ck, hint, false)
		if err != nil {
			continue
		}
		if _, err := w.Write(data); err != nil && len(data) > 0 {
			c.Violation(map[string]any{"what": "Write failed on a NONE/" + ent + " stream", "err": err.Error()})
			continue
		}
		if err := w.Close(); err != nil {
			c.Violation(map[string]any{"what": "Close failed on a NONE/" + ent + " stream", "err": err.Error()})
			continue
		}
		stream := sink.buf.Bytes()
		// block hashes
		hs := []string{}
		nb := 0
		for off := 0; off < len(data); off += int(bs) {
			end := off + int(bs)
			if end > len(data) {
				end = len(data)
			}
			blk := data[off:end]
			switch ck {
			case 32:
				h, _ := hash.NewXXHash32(0x4B414E5A)
				hs = append(hs, fmt.Sprint(h.Hash(blk)))
			case 64:
				h, _ := hash.NewXXHash64(0x4B414E5A)
				hs = append(hs, fmt.Sprint(h.Hash(blk)))
			default:
				hs = append(hs, "0")
			}
			nb++
		}
		if len(hs) == 0 {
			hs = []string{"-"}
		}
		// Go reads it back
		res := decompressTimed(stream, sCfg{"NONE", ent, bs, jobs, ck, hint, false}, 2, nil, 0, nil, 60*time.Second)
		sum := 0
		for _, x := range res.data {
			sum += int(x)
		}
		p := fmt.Sprintf("P:ok:%d:%d:%d", nb, len(res.data), sum)
		if res.err != nil || !res.eof || string(res.data) != string(data) {
			c.Violation(map[string]any{"what": "NONE/" + ent + " round trip failed", "err": fmt.Sprint(res.err), "len": len(data)})
			p = "P:fail"
		}
		dh := "-"
		if len(data) > 0 {
			dh = hex.EncodeToString(data)
		}
		fmt.Fprintf(cases, "ct %d %d %d %d ; %s ; %s ; %s\n", ck/32, bs, hint, entCode, strings.Join(hs, " "), dh, hex.EncodeToString(stream))
		fmt.Fprintf(gout, "S:%s %s\n", hex.EncodeToString(stream), p)
		c.Count("evaluations", 1)
		c.Hist("blocks", fmt.Sprint(nb))
		c.Hist("checksum", fmt.Sprint(ck))
		c.Hist("entropy", ent)
		// the same stream cut at a random byte, read with one job: how many bytes come out before the error (C09),
		// against the number of bytes in the frames the model parses before its failure
		if len(stream) > 2 {
			k := r.Range(1, len(stream)-1)
			if r.Bool() { // half of the cuts in the last third: behind complete frames
				k = r.Range(len(stream)-1-len(stream)/3, len(stream)-1)
			}
			res2 := decompressTimed(stream[:k], sCfg{"NONE", ent, bs, 1, ck, hint, false}, 1, nil, 0, nil, 60*time.Second)
			if res2.err == nil || res2.eof || !isPrefix(res2.data, data) {
				c.Violation(map[string]any{"what": "a truncated NONE/" + ent + " stream was read without an error, or gave bytes that are not a prefix", "cut": k, "of": len(stream)})
			}
			fmt.Fprintf(cases, "ctt %d %d %d %d ; %s\n", ck/32, bs, hint, entCode, hex.EncodeToString(stream[:k]))
			fmt.Fprintf(gout, "T:%d\n", len(res2.data))
			c.Count("evaluations", 1)
			c.Hist("truncated", "yes")
		}
		if nb > 0 {
			nontrivial++
		}
	}
	c.Stats["distinct_nontrivial"] = nontrivial
}
