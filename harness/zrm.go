package main

// zrm: transform/ZRLT.go against the extracted Coq model Model/ZRLT.v: Forward on blocks rich in
// zero runs and 0xFE/0xFF bytes (and blocks that do not shrink: decline), Inverse on what Forward
// produced and on arbitrary symbol strings, with exact-size and larger destination buffers.

import (
	"fmt"
	"strings"

	"github.com/flanglet/kanzi-go/v2/transform"
)

func init() { commands["zrm"] = runZrm }

func bytesDec(b []byte) string {
	if len(b) == 0 {
		return "-"
	}
	s := make([]string, len(b))
	for i, x := range b {
		s[i] = fmt.Sprint(x)
	}
	return strings.Join(s, " ")
}

func runZrm(c *Ctx, _ []string) {
	r := NewRng(c.Seed ^ 0x2a17)
	cases := c.W("cases.txt")
	gout := c.W("go.txt")
	n := 1500 * c.Scale
	nontrivial := 0
	for i := 0; i < n; i++ {
		ln := r.Range(1, 60)
		if r.Intn(5) == 0 {
			ln = r.Range(60, 700)
		}
		src := make([]byte, ln)
		mode := r.Intn(5)
		for k := 0; k < ln; {
			switch {
			case mode == 4: // arbitrary symbols (meant for Inverse)
				src[k] = []byte{0, 1, 0, 1, 2, 3, 255, 254, 77, 0}[r.Intn(10)]
				k++
			case r.Intn(3) == 0: // a run of zeros
				run := r.Range(1, 9)
				if r.Intn(6) == 0 {
					run = r.Range(10, 300)
				}
				for j := 0; j < run && k < ln; j++ {
					src[k] = 0
					k++
				}
			default:
				src[k] = []byte{1, 2, 253, 254, 255, byte(r.Intn(256)), 65, 66}[r.Intn(8)]
				if mode == 1 && r.Intn(2) == 0 {
					src[k] = byte(1 + r.Intn(200))
				}
				k++
			}
		}
		z, _ := transform.NewZRLT()
		out := strings.Builder{}
		if mode != 4 {
			dcap := ln + r.Intn(3)
			if r.Intn(12) == 0 {
				dcap = r.Range(1, ln)
			}
			dst := make([]byte, dcap)
			dcap2 := ln + r.Intn(3)
			orig := append([]byte{}, src...)
			var ferr error
			var flen uint
			fp := false
			func() {
				defer func() {
					if e := recover(); e != nil {
						fp = true
					}
				}()
				_, flen, ferr = z.Forward(src, dst)
			}()
			if string(orig) != string(src) {
				c.Violation(map[string]any{"what": "ZRLT.Forward modified its input", "src": bytesDec(orig)})
			}
			switch {
			case fp:
				out.WriteString("F:panic")
			case ferr != nil:
				out.WriteString("F:err")
			default:
				out.WriteString("F:" + bytesDec(dst[:flen]))
				dst2 := make([]byte, dcap2)
				var ierr error
				var ilen uint
				ip := false
				func() {
					defer func() {
						if e := recover(); e != nil {
							ip = true
						}
					}()
					_, ilen, ierr = z.Inverse(dst[:flen], dst2)
				}()
				if ip || ierr != nil || string(dst2[:ilen]) != string(orig) {
					c.Violation(map[string]any{"what": "ZRLT: Inverse(Forward(x)) != x", "src": bytesDec(orig), "panic": ip, "err": fmt.Sprint(ierr)})
				}
				out.WriteString(" I:")
				switch {
				case ip:
					out.WriteString("panic")
				case ierr != nil:
					out.WriteString("err")
				default:
					out.WriteString(bytesDec(dst2[:ilen]))
				}
				if ln > 8 {
					nontrivial++
				}
			}
			fmt.Fprintf(cases, "zr f %d %d ; %s\n", dcap, dcap2, bytesDec(orig))
		} else {
			dcap2 := r.Range(1, 3*ln)
			dst2 := make([]byte, dcap2)
			var ierr error
			var ilen uint
			ip := false
			func() {
				defer func() {
					if e := recover(); e != nil {
						ip = true
					}
				}()
				_, ilen, ierr = z.Inverse(src, dst2)
			}()
			switch {
			case ip:
				out.WriteString("I:panic")
			case ierr != nil:
				out.WriteString("I:err")
			default:
				out.WriteString("I:" + bytesDec(dst2[:ilen]))
			}
			fmt.Fprintf(cases, "zr i %d 0 ; %s\n", dcap2, bytesDec(src))
		}
		fmt.Fprintln(gout, out.String())
		c.Count("evaluations", 1)
		c.Hist("mode", fmt.Sprint(mode))
		c.Hist("outcome", strings.SplitN(out.String(), ":", 2)[0]+":"+map[bool]string{true: "err", false: "ok"}[strings.Contains(out.String(), "err")])
	}
	c.Stats["distinct_nontrivial"] = nontrivial
}
