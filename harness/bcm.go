package main

// bcm: entropy/BinaryEntropyCodec.go (the arithmetic coder behind CM / TPAQ / TPAQX) against the
// extracted Coq model Model/BinCoder.v.  The predictor is real (CM, TPAQ, TPAQX) or scripted; in both
// cases its Get() values are recorded and replayed by the model, so that the model's coder is compared
// with the Go coder on exactly the same probabilities.  A sentinel follows the block.

import (
	"bytes"
	"encoding/hex"
	"fmt"
	"strings"

	kanzi "github.com/flanglet/kanzi-go/v2"
	"github.com/flanglet/kanzi-go/v2/bitstream"
	"github.com/flanglet/kanzi-go/v2/entropy"
)

func init() { commands["bcm"] = runBcm }

// scripted predictor: a deterministic function of the bit history
type scriptPred struct {
	h    uint64
	mode int // 0: spread, 1: extremes (0 and 4095 included), 2: always 2048
}

func (p *scriptPred) Get() int {
	z := p.h * 0x9E3779B97F4A7C15
	z ^= z >> 29
	switch p.mode {
	case 1:
		switch z % 5 {
		case 0:
			return 0
		case 1:
			return 4095
		case 2:
			return 1
		}
		return int(z>>8) % 4096
	case 2:
		return 2048
	}
	return int(z>>8) % 4096
}
func (p *scriptPred) Update(bit byte) { p.h = p.h*31 + uint64(bit) + 7 }

type recPred struct {
	in   kanzi.Predictor
	gets []int
}

func (r *recPred) Get() int        { v := r.in.Get(); r.gets = append(r.gets, v); return v }
func (r *recPred) Update(bit byte) { r.in.Update(bit) }

func newPred(kind string, mode int) kanzi.Predictor {
	switch kind {
	case "cm":
		p, _ := entropy.NewCMPredictor(nil)
		return p
	case "tpaq":
		ctx := map[string]any{"entropy": "TPAQ", "blockSize": uint(32768)}
		p, _ := entropy.NewTPAQPredictor(&ctx)
		return p
	case "tpaqx":
		ctx := map[string]any{"entropy": "TPAQX", "blockSize": uint(32768)}
		p, _ := entropy.NewTPAQPredictor(&ctx)
		return p
	}
	return &scriptPred{h: 1, mode: mode}
}

func runBcm(c *Ctx, _ []string) {
	r := NewRng(c.Seed ^ 0xbc)
	cases := c.W("cases.txt")
	gout := c.W("go.txt")
	n := 250 * c.Scale
	nontrivial := 0
	const sentinel = 0xa5c3f00f
	for i := 0; i < n; i++ {
		kind := []string{"cm", "tpaq", "tpaqx", "script", "script", "script"}[r.Intn(6)]
		mode := r.Intn(3)
		ln := r.Range(1, 80)
		switch r.Intn(6) {
		case 0:
			ln = r.Range(60, 70)
		case 1:
			ln = r.Range(100, 1500)
		case 2:
			ln = 0
		}
		data := make([]byte, ln)
		// data in agreement with the predictor (compressible), against it (expanding: the encoder may
		// run out of its buffer), or unrelated
		shape := r.Intn(4)
		gen := newPred(kind, mode)
		for k := range data {
			var b byte
			for j := 0; j < 8; j++ {
				p := gen.Get()
				var bit byte
				switch shape {
				case 0:
					if r.Intn(4096) < p {
						bit = 1
					}
				case 1:
					if r.Intn(4096) >= p {
						bit = 1
					}
				case 2:
					bit = byte(r.Intn(2))
				default:
					if (k/3)%2 == 0 {
						bit = byte(j & 1)
					}
				}
				gen.Update(bit)
				b = b<<1 | bit
			}
			data[k] = b
		}
		// encode
		sink := &bufWC{}
		obs, _ := bitstream.NewDefaultOutputBitStream(sink, 16384)
		rec := &recPred{in: newPred(kind, mode)}
		enc, _ := entropy.NewBinaryEntropyEncoder(obs, rec)
		panicked := false
		func() {
			defer func() {
				if e := recover(); e != nil {
					panicked = true
				}
			}()
			enc.Write(data)
			enc.Dispose()
		}()
		out := strings.Builder{}
		streamHex := "-"
		if panicked {
			out.WriteString("E:P")
		} else {
			obs.WriteBits(sentinel, 32)
			obs.Close()
			all := sink.Bytes()
			body := all[:len(all)-4]
			if len(body) == 0 {
				out.WriteString("E:-")
			} else {
				out.WriteString("E:" + hex.EncodeToString(body))
				streamHex = hex.EncodeToString(body)
			}
			// decode with a fresh predictor of the same kind
			ibs, _ := bitstream.NewDefaultInputBitStream(bufRC{bytes.NewReader(all)}, 16384)
			dec, _ := entropy.NewBinaryEntropyDecoder(ibs, newPred(kind, mode))
			got := make([]byte, ln)
			var derr error
			dpanic := false
			var sent uint64
			func() {
				defer func() {
					if e := recover(); e != nil {
						dpanic = true
					}
				}()
				_, derr = dec.Read(got)
				dec.Dispose()
				sent = ibs.ReadBits(32)
			}()
			if dpanic || derr != nil || !bytes.Equal(got, data) || sent != sentinel {
				c.Violation(map[string]any{"what": "binary entropy codec round trip with sentinel failed", "predictor": kind, "mode": mode,
					"len": ln, "shape": shape, "panic": dpanic, "err": fmt.Sprint(derr), "sentinel": fmt.Sprintf("%x", sent),
					"data": hex.EncodeToString(data)})
			}
			if len(body) > 0 {
				if dpanic {
					out.WriteString(" D:eos")
				} else if derr != nil {
					out.WriteString(" D:invalid")
				} else {
					g := "-"
					if ln > 0 {
						g = hex.EncodeToString(got)
					}
					out.WriteString(fmt.Sprintf(" D:%s R:%08x", g, sent))
				}
			}
			if ln > 8 {
				nontrivial++
			}
		}
		ps := make([]string, len(rec.gets))
		for k, v := range rec.gets {
			ps[k] = fmt.Sprint(v)
		}
		dh := "-"
		if ln > 0 {
			dh = hex.EncodeToString(data)
		}
		fmt.Fprintf(cases, "bc %s ; %s ; %s\n", dh, strings.Join(ps, " "), streamHex)
		fmt.Fprintln(gout, out.String())
		c.Count("evaluations", 1)
		c.Hist("predictor", kind)
		c.Hist("shape", fmt.Sprint(shape))
		if panicked {
			c.Hist("outcome", "encoder_out_of_buffer")
		} else {
			c.Hist("outcome", "ok")
		}
	}
	c.Stats["distinct_nontrivial"] = nontrivial
}
