package main

import (
	"fmt"
	"strconv"
	"strings"

	"github.com/flanglet/kanzi-go/v2/entropy"
)

func init() { commands["c16"] = runC16 }

func ints(xs []int) string {
	sb := strings.Builder{}
	for i, x := range xs {
		if i > 0 {
			sb.WriteByte(' ')
		}
		sb.WriteString(strconv.Itoa(x))
	}
	return sb.String()
}

// classify which path of NormalizeFrequencies a histogram takes (recomputed from the formula,
// only used to measure the input distribution)
func c16Path(f []int, total, scale int) string {
	if total == scale {
		return "shortcut"
	}
	n, sum, mx := 0, 0, 0
	for _, x := range f {
		if x == 0 {
			continue
		}
		n++
		sf := int64(x) * int64(scale)
		s := 1
		if sf > int64(total) {
			s = int((sf + int64(total>>1)) / int64(total))
		}
		sum += s
		if s > mx {
			mx = s
		}
	}
	if n <= 1 {
		return "single"
	}
	if sum == scale {
		return "exact"
	}
	d := sum - scale
	if d < 0 {
		d = -d
	}
	if d <= mx>>4 {
		return "fast"
	}
	if sum > scale {
		return "slow-surplus"
	}
	return "slow-deficit"
}

func runC16(c *Ctx, _ []string) {
	r := NewRng(c.Seed)
	cases := c.W("cases.txt")
	gout := c.W("go.txt")
	seen := map[string]bool{}
	nontrivial := 0
	emit := func(family string, f []int, scale int) {
		total := 0
		for _, x := range f {
			total += x
		}
		if total == 0 || total > 1<<27 {
			return
		}
		key := ints(f) + "/" + strconv.Itoa(scale)
		path := c16Path(f, total, scale)
		c.Count("evaluations", 1)
		c.Hist("family", family)
		c.Hist("path", path)
		if !seen[key] {
			seen[key] = true
			if strings.HasPrefix(path, "slow") || path == "fast" {
				nontrivial++
			}
		}
		fr := make([]int, 256)
		copy(fr, f)
		al := make([]int, 256)
		n, err := entropy.NormalizeFrequencies(fr, al, total, scale)
		fmt.Fprintf(cases, "norm %d %d %s\n", total, scale, ints(f))
		if err != nil {
			fmt.Fprintf(gout, "err\n")
		} else {
			fmt.Fprintf(gout, "ok %s | %s\n", ints(fr), ints(al[:n]))
		}
		// the property itself, on the implementation
		bad := ""
		sum := 0
		k := 0
		for i := 0; i < 256; i++ {
			sum += fr[i]
			if (f[i] == 0) != (fr[i] == 0) || fr[i] < 0 {
				bad = fmt.Sprintf("symbol %d: count %d -> frequency %d", i, f[i], fr[i])
			}
			if f[i] != 0 {
				if k >= n || al[k] != i {
					bad = fmt.Sprintf("alphabet[%d] is not symbol %d", k, i)
				}
				k++
			}
		}
		if err != nil {
			bad = "error returned: " + err.Error()
		} else if sum != scale {
			bad = fmt.Sprintf("sum %d != scale %d", sum, scale)
		} else if k != n {
			bad = fmt.Sprintf("alphabet size %d != %d present", n, k)
		}
		if bad != "" {
			c.Violation(map[string]any{"what": bad, "family": family, "total": total, "scale": scale, "freqs": ints(f)})
		}
		if len(c.Stats["samples"].([]any)) < 4 && path != "shortcut" && r.Intn(50) == 0 {
			c.Stats["samples"] = append(c.Stats["samples"].([]any), map[string]any{"family": family, "path": path, "scale": scale, "total": total, "freqs_nonzero": nz(f)})
		}
	}
	c.Stats["samples"] = []any{}
	scales := []int{256, 512, 1024, 2048, 4096, 8192, 16384, 32768, 65536}
	mk := func() []int { return make([]int, 256) }
	// corpus first: the two histograms that broke the unrepaired code
	{
		f := mk()
		for i := range f {
			if i < 212 {
				f[i] = 1
			} else {
				f[i] = 2
			}
		}
		emit("corpus", f, 256)
		g := mk()
		for i := 0; i < 250; i++ {
			g[i] = 3
		}
		for i := 250; i < 256; i++ {
			g[i] = 708
		}
		emit("corpus", g, 4096)
	}
	// exhaustive small: 2 and 3 symbols at arbitrary positions, counts 1..12, three scales
	for a := 1; a <= 12; a++ {
		for b := 1; b <= 12; b++ {
			for _, sc := range []int{256, 4096, 65536} {
				f := mk()
				f[3], f[200] = a, b
				emit("exh2", f, sc)
				for d := 1; d <= 12; d += 3 {
					g := mk()
					g[0], g[1], g[255] = a, b, d
					emit("exh3", g, sc)
				}
			}
		}
	}
	// directed: k rare symbols (count 1..3) + m dominant symbols, at every scale
	nd := 1500 * c.Scale
	for i := 0; i < nd; i++ {
		f := mk()
		k := r.Range(1, 250)
		m := r.Range(1, 256-k)
		perm := permutation(r, 256)
		rare := r.Range(1, 3)
		for j := 0; j < k; j++ {
			f[perm[j]] = r.Range(1, rare)
		}
		dom := 1 << uint(r.Range(1, 18))
		for j := 0; j < m; j++ {
			f[perm[k+j]] = r.Range(dom/2+1, dom)
		}
		emit("directed", f, r.Pick(scales))
	}
	// rounding boundaries: a symbol whose f*scale is exactly half of the total (odd and even totals), one below, one above
	for _, sc := range scales {
		for fcnt := 1; fcnt <= 6; fcnt++ {
			for _, dt := range []int{-2, -1, 0, 1, 2} {
				total := 2*fcnt*sc + dt
				if total <= fcnt+1 {
					continue
				}
				for nbig := 1; nbig <= 3; nbig++ {
					f := mk()
					f[10] = fcnt
					rest := total - fcnt
					for j := 0; j < nbig; j++ {
						share := rest / (nbig - j)
						f[100+7*j] = share
						rest -= share
					}
					emit("half-boundary", f, sc)
					// the scaled count exactly on quantum k + 1/2: f*scale = (2k+1)*total/2
					g := mk()
					g[3] = fcnt * 3
					g[250] = 2*fcnt*sc + dt - fcnt*3
					if g[250] > 0 {
						emit("half-boundary", g, sc)
					}
				}
			}
		}
	}
	// near-threshold totals: total just around scale (many quantum-1 symbols)
	for i := 0; i < 1500*c.Scale; i++ {
		f := mk()
		sc := r.Pick(scales[:5])
		n := r.Range(2, 256)
		perm := permutation(r, 256)
		target := sc + r.Range(-sc/4, sc/2)
		if target < n {
			target = n
		}
		for j := 0; j < n; j++ {
			f[perm[j]] = 1
		}
		for t := n; t < target; t++ {
			if r.Intn(4) == 0 {
				f[perm[r.Intn(n)]]++
			} else {
				f[perm[r.Intn(1+n/8)]]++
			}
		}
		emit("near", f, sc)
	}
	// random shapes
	for i := 0; i < 1500*c.Scale; i++ {
		f := mk()
		n := r.Range(1, 256)
		perm := permutation(r, 256)
		shape := r.Intn(3)
		for j := 0; j < n; j++ {
			switch shape {
			case 0:
				f[perm[j]] = r.Range(1, 1<<uint(r.Range(1, 19)))
			case 1:
				f[perm[j]] = 1 + (1<<19)>>uint(j%20)
			default:
				f[perm[j]] = 1 + (1<<19)/(j+1)
			}
		}
		emit("random", f, r.Pick(scales))
	}
	c.Stats["distinct_nontrivial"] = nontrivial
}

func nz(f []int) map[string]int {
	m := map[string]int{}
	for i, x := range f {
		if x != 0 && len(m) < 12 {
			m[strconv.Itoa(i)] = x
		}
	}
	return m
}

func permutation(r *Rng, n int) []int {
	p := make([]int, n)
	for i := range p {
		p[i] = i
	}
	for i := n - 1; i > 0; i-- {
		j := r.Intn(i + 1)
		p[i], p[j] = p[j], p[i]
	}
	return p
}
