package main

// hdm: stream header (Writer.writeHeader / Reader.readHeader, format version 6) against the extracted
// Coq model Model/Header.v: header bytes for random configurations, and the outcome of parsing
// intact, bit-flipped and truncated headers (fields seen by a listener, or the error category).

import (
	"bytes"
	"encoding/hex"
	"errors"
	"fmt"
	stdio "io"
	"strings"

	kanzi "github.com/flanglet/kanzi-go/v2"
	"github.com/flanglet/kanzi-go/v2/entropy"
	kio "github.com/flanglet/kanzi-go/v2/io"
	"github.com/flanglet/kanzi-go/v2/transform"
)

func init() { commands["hdm"] = runHdm }

type hdrListener struct{ info *kanzi.HeaderInfo }

func (l *hdrListener) ProcessEvent(e *kanzi.Event) {
	if e.Type() == kanzi.EVT_AFTER_HEADER_DECODING && e.Info() != nil {
		l.info = e.Info()
	}
}

var hdmTransforms = []string{"NONE", "BWT", "BWTS", "LZ", "LZX", "LZP", "ROLZ", "ROLZX", "RLT", "ZRLT", "MTFT", "RANK", "SRT", "TEXT", "EXE", "MM", "UTF", "PACK", "DNA"}
var hdmEntropies = []string{"NONE", "HUFFMAN", "ANS0", "ANS1", "RANGE", "FPAQ", "CM", "TPAQ", "TPAQX"}

func parseHeaderGo(stream []byte) string {
	rd, err := kio.NewReaderWithCtx(stdio.NopCloser(bytes.NewReader(stream)), map[string]any{"jobs": uint(1)})
	if err != nil {
		return "err:new"
	}
	lst := &hdrListener{}
	rd.AddListener(lst)
	buf := make([]byte, 16)
	var rerr error
	func() {
		defer func() {
			if r := recover(); r != nil {
				rerr = fmt.Errorf("panic %v", r)
			}
		}()
		_, rerr = rd.Read(buf)
	}()
	rd.Close()
	if lst.info != nil {
		et, _ := entropy.GetType(lst.info.EntropyType)
		tt, _ := transform.GetType(lst.info.TransformType)
		osz := lst.info.OriginalSize
		if osz < 0 {
			osz = 0
		}
		return fmt.Sprintf("ok:%d:%d:%d:%d:%d", lst.info.ChecksumSize/32, et, tt, lst.info.BlockSize, osz)
	}
	var ioe *kio.IOError
	if errors.As(rerr, &ioe) {
		switch ioe.ErrorCode() {
		case kanzi.ERR_INVALID_FILE:
			return "err:type"
		case kanzi.ERR_STREAM_VERSION:
			return "err:version"
		case kanzi.ERR_INVALID_CODEC:
			return "err:codec"
		case kanzi.ERR_BLOCK_SIZE:
			return "err:bsize"
		case kanzi.ERR_CRC_CHECK:
			return "err:crc"
		default:
			return "err:eos"
		}
	}
	if rerr == nil {
		return "err:none"
	}
	return "err:eos"
}

func runHdm(c *Ctx, _ []string) {
	r := NewRng(c.Seed ^ 0x4844)
	cases := c.W("cases.txt")
	gout := c.W("go.txt")
	n := 500 * c.Scale
	nontrivial := 0
	for i := 0; i < n; i++ {
		nt := r.Range(1, 8)
		names := make([]string, nt)
		for k := range names {
			names[k] = hdmTransforms[r.Intn(len(hdmTransforms))]
		}
		tname := strings.Join(names, "+")
		ename := hdmEntropies[r.Intn(len(hdmEntropies))]
		bs := uint(16 * r.Range(64, 65536)) // 1 KiB .. 1 MiB, multiple of 16
		if r.Intn(8) == 0 {
			bs = uint(1024)
		}
		ck := []uint{0, 32, 64}[r.Intn(3)]
		var hint int64
		switch r.Intn(7) {
		case 0:
			hint = 0
		case 1:
			hint = int64(r.Range(1, 65535))
		case 2:
			hint = 65536 + int64(r.U64()%(1<<31))
		case 3:
			hint = (int64(1) << 32) + int64(r.U64()%(1<<40))
		case 4:
			hint = (int64(1) << 48) + int64(r.U64()%(1<<10))
		case 5:
			hint = []int64{65535, 65536, (1 << 32) - 1, 1 << 32, (1 << 48) - 1, 1 << 48}[r.Intn(6)]
		default:
			hint = int64(r.Range(1, 1<<20))
		}
		sink := &memSink{}
		w, err := kio.NewWriter(sink, tname, ename, bs, 1, ck, hint, false)
		if err != nil {
			continue
		}
		if err := w.Close(); err != nil {
			c.Violation(map[string]any{"what": "Close of an empty Writer failed", "err": err.Error(), "transform": tname, "entropy": ename})
			continue
		}
		stream := sink.buf.Bytes()
		et, _ := entropy.GetType(ename)
		tt, _ := transform.GetType(tname)
		m := 0
		switch {
		case hint == 0 || hint >= (1<<48):
			m = 0
		case hint >= (1 << 32):
			m = 3
		case hint >= (1 << 16):
			m = 2
		default:
			m = 1
		}
		hl := 20 + 2*m
		if len(stream) < hl {
			c.Violation(map[string]any{"what": "stream shorter than its header", "len": len(stream)})
			continue
		}
		// the stream presented to the reader: intact, one bit flipped in the header, or cut inside it
		mut := append([]byte{}, stream...)
		kind := "intact"
		switch r.Intn(5) {
		case 0, 1:
			bit := r.Intn(8 * hl)
			mut[bit/8] ^= 0x80 >> uint(bit%8)
			kind = "flip"
		case 2:
			mut = mut[:r.Intn(hl)]
			kind = "cut"
		}
		// older layouts are not modelled: skip a flip that lowers the version with the type intact
		if len(mut) >= 5 && bytes.Equal(mut[:4], stream[:4]) && mut[4]>>4 < 6 {
			continue
		}
		res := parseHeaderGo(mut)
		if kind == "intact" && !strings.HasPrefix(res, "ok:") {
			c.Violation(map[string]any{"what": "the Reader rejects the header the Writer wrote", "transform": tname, "entropy": ename, "block": bs, "hint": hint, "res": res})
		}
		fmt.Fprintf(cases, "hd %d %d %d %d %d ; %s\n", ck/32, et, tt, bs, hint, hexOrDash(mut))
		fmt.Fprintf(gout, "H:%s P:%s\n", hex.EncodeToString(stream[:hl]), res)
		c.Count("evaluations", 1)
		c.Hist("kind", kind)
		c.Hist("outcome", strings.SplitN(res, ":", 3)[0]+":"+strings.SplitN(res+":", ":", 3)[1])
		nontrivial++
	}
	c.Stats["distinct_nontrivial"] = nontrivial
}

func hexOrDash(b []byte) string {
	if len(b) == 0 {
		return "-"
	}
	return hex.EncodeToString(b)
}
