package main

import (
	"bytes"
	"crypto/sha256"
	"encoding/hex"
	"fmt"
	stdio "io"
	"runtime"
	"strings"
	"sync"
	"sync/atomic"
	"time"

	kanzi "github.com/flanglet/kanzi-go/v2"
	kio "github.com/flanglet/kanzi-go/v2/io"
)

func short(b []byte) string {
	h := sha256.Sum256(b)
	return fmt.Sprintf("%d:%s", len(b), hex.EncodeToString(h[:6]))
}

func describe(shape string, n int, seed uint64) map[string]any {
	return map[string]any{"shape": shape, "len": n, "dataseed": seed}
}

// data is regenerated from (shape, len, dataseed): replay files stay small
func mkData(shape string, n int, seed uint64) []byte { return genData(NewRng(seed), shape, n) }

func isPrefix(p, full []byte) bool { return len(p) <= len(full) && bytes.Equal(p, full[:len(p)]) }

// perturbation controller: random yields / tiny sleeps at the hand-off hook points
func installPerturb(seed uint64) func() {
	var ctr atomic.Uint64
	ctr.Store(seed)
	var h kio.VerifController = func(side, site int, id int32, cnt int32) {
		x := ctr.Add(0x9E3779B97F4A7C15)
		x ^= x >> 29
		switch x % 7 {
		case 0, 1:
			runtime.Gosched()
		case 2:
			time.Sleep(time.Duration(x%50) * time.Microsecond)
		}
	}
	kio.VerifHook.Store(&h)
	return func() { kio.VerifHook.Store(nil) }
}

func pickSize(r *Rng, block uint) int {
	b := int(block)
	switch r.Intn(9) {
	case 0:
		return r.Intn(20) // empty and tiny (<= 15 bytes: copy mode)
	case 1:
		return b
	case 2:
		return b + r.Range(-17, 17)
	case 3:
		return r.Range(1, 3) * b
	case 4:
		return r.Range(2, 9)*b + r.Intn(b)
	case 5:
		return r.Range(1, 300)
	default:
		return r.Intn(6*b + 1)
	}
}

func randCfg(r *Rng, heavy bool) sCfg {
	c := sCfg{}
	switch r.Intn(10) {
	case 0, 1, 2, 3:
		c.Transform = transformNames[r.Intn(len(transformNames))]
	case 4, 5, 6:
		c.Transform = randChain(r, 3)
	default:
		c.Transform = randChain(r, 8)
	}
	c.Entropy = entropyNames[r.Intn(len(entropyNames))]
	if !heavy && r.Intn(3) != 0 {
		c.Entropy = fastEntropy[r.Intn(len(fastEntropy))]
	}
	blocks := []uint{1024, 1024, 2048, 4096, 16384, 65536}
	c.Block = blocks[r.Intn(len(blocks))]
	if r.Intn(8) == 0 {
		c.Block = uint(16 * r.Range(64, 1024))
	}
	c.Jobs = uint(r.Range(1, 4))
	switch r.Intn(8) {
	case 0:
		c.Jobs = uint(r.Range(5, 16))
	case 1:
		c.Jobs = uint(r.Range(17, 64))
	}
	c.Checksum = []uint{0, 32, 64}[r.Intn(3)]
	c.Headerless = r.Intn(6) == 0
	return c
}

func setHint(r *Rng, c *sCfg, n int) string {
	switch r.Intn(5) {
	case 0:
		c.Hint = 0
		return "absent"
	case 1, 2:
		c.Hint = int64(n)
		return "exact"
	case 3:
		c.Hint = int64(r.Intn(n + 1))
		if r.Bool() {
			c.Hint = int64(c.Block) * int64(r.Range(0, 2))
		}
		return "smaller"
	default:
		c.Hint = int64(n) + int64(r.Intn(8*int(c.Block)+1))
		return "larger"
	}
}

func init() {
	commands["c01"] = runC01
	commands["c04"] = runC04
	commands["c05"] = runC05
	commands["c06"] = runC06
	commands["c09"] = runC09
	commands["c11"] = runC11
	commands["c02"] = runC02
}

// ------------------------------------------------------------------ C01
func runC01(c *Ctx, _ []string) {
	r := NewRng(c.Seed ^ 0x0101)
	n := 420 * c.Scale
	c.Stats["samples"] = []any{}
	seen := map[string]bool{}
	nontrivial := 0
	// regression corpus first
	type fixed struct {
		cfg   sCfg
		shape string
		n     int
	}
	corpus := []fixed{
		{sCfg{"NONE", "NONE", 4096, 4, 0, 4096, false}, "text", 32768},      // F2: hint smaller than the data
		{sCfg{"NONE", "NONE", 1024, 64, 32, 102400, false}, "text", 102400}, // F2': exact hint >= 63 blocks, 64 jobs
		{sCfg{"ROLZX", "NONE", 65536, 1, 32, 0, false}, "dna", 65536},       // F9
		{sCfg{"NONE", "ANS0", 65536, 1, 32, 0, false}, "skewed", 40000},
		{sCfg{"NONE", "RANGE", 65536, 1, 32, 0, false}, "skewed", 40000},
		{sCfg{"LZ", "TPAQ", 65536, 2, 32, 0, false}, "text", 100000}, // ctx["size"] after transform
		{sCfg{"TEXT", "TPAQX", 65536, 2, 0, 0, false}, "text", 100000},
	}
	run := func(cfg sCfg, shape string, size int, hintKind string, dseed uint64, partition []int, rjobs uint) {
		data := mkData(shape, size, dseed)
		c.Count("evaluations", 1)
		c.Hist("shape", shape)
		c.Hist("entropy", cfg.Entropy)
		c.Hist("hint", hintKind)
		c.Hist("chain_len", fmt.Sprint(1+strings.Count(cfg.Transform, "+")))
		for _, t := range strings.Split(cfg.Transform, "+") {
			c.Hist("transform", t)
		}
		desc := map[string]any{"cfg": cfg.String(), "data": describe(shape, size, dseed), "partition": partition, "reader_jobs": rjobs}
		stream, stage, err := compress(cfg, data, partition)
		if stage == "new" {
			c.Hist("outcome", "rejected-at-construction")
			return
		}
		key := cfg.String() + shape + fmt.Sprint(size)
		if !seen[key] {
			seen[key] = true
			if size > int(cfg.Block) || strings.Contains(cfg.Transform, "+") {
				nontrivial++
			}
		}
		if err != nil {
			desc["what"] = fmt.Sprintf("writer failed at %s after the configuration was accepted: %v", stage, err)
			c.Violation(desc)
			return
		}
		res := decompressTimed(stream, cfg, rjobs, []int{1 + r.Intn(70000)}, 2, nil, 120*time.Second)
		if res.timeout || res.panic != nil || res.err != nil || !res.eof || !bytes.Equal(res.data, data) {
			desc["what"] = fmt.Sprintf("round trip failed: err=%v panic=%v timeout=%v eof=%v got=%s want=%s", res.err, res.panic, res.timeout, res.eof, short(res.data), short(data))
			c.Violation(desc)
			return
		}
		for _, t := range res.trail {
			if !strings.HasSuffix(t, "EOF") || !strings.HasPrefix(t, "n=0") {
				desc["what"] = "Read after end-of-stream returned " + t
				c.Violation(desc)
				return
			}
		}
		c.Hist("outcome", "ok")
		if len(c.Stats["samples"].([]any)) < 4 && r.Intn(40) == 0 {
			c.Stats["samples"] = append(c.Stats["samples"].([]any), desc)
		}
	}
	for _, f := range corpus {
		run(f.cfg, f.shape, f.n, "corpus", 7, nil, 1)
	}
	// one block above the 4 MiB threshold of the parallel inverse BWT, size in the header: the single decoding task gets all
	// the reader's jobs and splits its 8 chunks among them (uneven splits for 3, 5, 6, 7 jobs)
	for _, rj := range []uint{3, 7} {
		run(sCfg{"BWT", "NONE", 8 << 20, 1, 32, 5<<20 + 77, false}, "text", 5<<20+77, "corpus", 9, nil, rj)
	}
	for i := 0; i < n; i++ {
		cfg := randCfg(r, false)
		shape := dataShapes[r.Intn(len(dataShapes))]
		size := pickSize(r, cfg.Block)
		slow := cfg.Entropy == "TPAQ" || cfg.Entropy == "TPAQX" || cfg.Entropy == "CM"
		if slow && size > 60000 {
			size = r.Intn(60000)
		}
		if size > 400000 {
			size = 400000
		}
		hk := setHint(r, &cfg, size)
		var part []int
		if r.Intn(3) == 0 {
			part = []int{1 + r.Intn(3*int(cfg.Block))}
		}
		run(cfg, shape, size, hk, r.U64(), part, uint(r.Range(1, 6)))
	}
	// every single transform x a matching data shape x every entropy codec, through the stream layer
	for ti, t := range transformNames {
		for ei, e := range entropyNames {
			if c.Scale == 1 && (ti+ei+int(c.Seed))%3 != 0 {
				continue
			}
			shape := map[string]string{"TEXT": "text", "UTF": "utf8", "DNA": "dna", "PACK": "b64", "EXE": "exe", "MM": "mm", "ZRLT": "runs", "RLT": "runs", "ROLZX": "dna", "ROLZ": "text", "SRT": "skewed", "RANK": "skewed", "MTFT": "skewed"}[t]
			if shape == "" {
				shape = "text"
			}
			cfg := sCfg{t, e, 16384, 2, 32, 0, false}
			run(cfg, shape, 40000, "absent", uint64(ti*31+ei), nil, 3)
		}
	}
	c.Stats["distinct_nontrivial"] = nontrivial
}

// ------------------------------------------------------------------ C04
func runC04(c *Ctx, _ []string) {
	r := NewRng(c.Seed ^ 0x0404)
	n := 45 * c.Scale
	c.Stats["samples"] = []any{}
	nontrivial := 0
	// fixed corpus: blocks above the 256 KiB floor of the writer's input buffers with chains whose worst case exceeds
	// the buffer (tasks enlarge their input buffers), 3+ blocks per batch
	for ci, fx := range []struct {
		cfg   sCfg
		shape string
		size  int
	}{{sCfg{"TEXT+UTF+EXE+PACK+MM+ROLZ", "NONE", 262144, 1, 32, 0, false}, "mm", 1200000},
		{sCfg{"EXE+LZ", "HUFFMAN", 524288, 1, 0, 0, false}, "exe", 1700000},
		{sCfg{"EXE+RLT+TEXT+UTF+DNA", "NONE", 262144, 1, 0, 1000000, false}, "text", 1000000}} {
		data := mkData(fx.shape, fx.size, uint64(ci)+7)
		ref, stage, err := compress(fx.cfg, data, nil)
		if stage != "" || err != nil {
			continue
		}
		nontrivial++
		for _, j := range []uint{3, 4, 8} {
			for _, perturb := range []bool{false, true} {
				c2 := fx.cfg
				c2.Jobs = j
				var undo func()
				if perturb {
					undo = installPerturb(r.U64())
				}
				out, _, err := compress(c2, data, nil)
				if undo != nil {
					undo()
				}
				c.Count("evaluations", 1)
				c.Hist("variant", "large-block corpus")
				if err != nil || !bytes.Equal(out, ref) {
					c.Violation(map[string]any{"cfg": fx.cfg.String(), "data": describe(fx.shape, fx.size, uint64(ci)+7),
						"what": fmt.Sprintf("output differs from the jobs=1 reference (jobs=%d, perturbed=%v): %s vs %s err=%v", j, perturb, short(out), short(ref), err)})
				}
			}
		}
	}
	for i := 0; i < n; i++ {
		cfg := randCfg(r, false)
		cfg.Jobs = 1
		shape := dataShapes[r.Intn(len(dataShapes))]
		blocks := r.Range(1, 9)
		size := blocks*int(cfg.Block) - r.Intn(int(cfg.Block))
		if i%3 == 2 && blocks >= 2 { // a tiny last block (<= 16 bytes: stored as it is) sharing its batch with full ones
			size = (blocks-1)*int(cfg.Block) + r.Range(1, 16)
		}
		if i%5 == 0 { // heterogeneous data: an ELF-like first block followed by text (per-block data type detection)
			shape = "exe+text"
		}
		if size > 300000 {
			size = 300000
		}
		dseed := r.U64()
		var data []byte
		if shape == "exe+text" {
			data = append(mkData("exe", int(cfg.Block), dseed), mkData("text", max(0, size-int(cfg.Block)), dseed)...)
			size = len(data)
		} else if i%2 == 1 {
			// a different shape per block, shorter last block: per-slot state (buffers that grew,
			// cached contexts) must not leak from one block to the next one in the same slot
			shape = "mixed"
			rr := NewRng(dseed)
			for len(data) < size {
				sh := dataShapes[rr.Intn(len(dataShapes))]
				if rr.Intn(3) == 0 {
					sh = []string{"text", "accent", "random"}[rr.Intn(3)]
				}
				k := int(cfg.Block)
				if size-len(data) < k {
					k = size - len(data)
				}
				data = append(data, genData(rr, sh, k)...)
			}
			if i%4 == 1 {
				cfg.Transform = []string{"TEXT", "TEXT+UTF", "TEXT+RLT", "UTF", "LZ", "ROLZ", "EXE+TEXT", "RLT"}[r.Intn(8)]
			}
		} else {
			data = mkData(shape, size, dseed)
		}
		hk := setHint(r, &cfg, size)
		ref, stage, err := compress(cfg, data, nil)
		if stage == "new" {
			continue
		}
		desc := map[string]any{"cfg": cfg.String(), "data": describe(shape, size, dseed), "hint": hk}
		if err != nil {
			continue // C01's business
		}
		if size > int(cfg.Block) {
			nontrivial++
		}
		variants := 0
		cmp := func(what string, jobs uint, part []int, perturb bool) {
			c2 := cfg
			c2.Jobs = jobs
			var undo func()
			if perturb {
				undo = installPerturb(r.U64())
			}
			out, _, err := compress(c2, data, part)
			if undo != nil {
				undo()
			}
			c.Count("evaluations", 1)
			variants++
			c.Hist("variant", what)
			if err != nil || !bytes.Equal(out, ref) {
				d := map[string]any{}
				for k, v := range desc {
					d[k] = v
				}
				d["what"] = fmt.Sprintf("output differs from the jobs=1 single-Write reference (%s, jobs=%d, partition=%v, perturbed=%v): %s vs %s err=%v", what, jobs, part, perturb, short(out), short(ref), err)
				c.Violation(d)
			}
		}
		for _, j := range []uint{2, 3, 4, uint(r.Range(5, 16)), uint(r.Range(17, 64))} {
			cmp("jobs", j, nil, false)
		}
		cmp("repeat", 1, nil, false)
		cmp("partition-random", uint(r.Range(1, 8)), []int{1 + r.Intn(2*int(cfg.Block)), 0, 1 + r.Intn(100)}, false)
		cmp("partition-blockaligned", uint(r.Range(1, 8)), []int{int(cfg.Block)}, false)
		if size <= 20000 {
			cmp("partition-1byte", uint(r.Range(1, 4)), []int{1}, false)
		}
		for k := 0; k < 3; k++ {
			cmp("perturbed-schedule", uint(r.Range(2, 8)), nil, true)
		}
		if len(c.Stats["samples"].([]any)) < 3 {
			desc["variants_compared"] = variants
			c.Stats["samples"] = append(c.Stats["samples"].([]any), desc)
		}
	}
	// directed family "slot history": full blocks of one shape followed by a shorter last block
	// of another shape; whether the last block lands in a fresh or in a used task slot depends on
	// the job count, and must not matter
	pairs := [][2]string{{"text", "accent"}, {"text", "random"}, {"runs", "random"}, {"dna", "text"}, {"utf8", "accent"}, {"exe", "text"}, {"zeros", "text"}, {"random", "text"}, {"b64", "accent"}}
	trs := []string{"TEXT", "TEXT+UTF", "UTF", "RLT", "LZ", "LZP", "ROLZ", "BWT", "EXE", "PACK", "TEXT+RLT+LZ", "MM", "ZRLT", "SRT"}
	for k := 0; k < 16*c.Scale; k++ {
		pr := pairs[r.Intn(len(pairs))]
		if k < len(pairs) {
			pr = pairs[k]
		}
		tr := trs[r.Intn(len(trs))]
		en := fastEntropy[r.Intn(len(fastEntropy))]
		if k < len(pairs) {
			tr = "TEXT"
			en = []string{"NONE", "HUFFMAN", "ANS0", "FPAQ"}[k%4]
		}
		bs := []uint{4096, 16384, 65536}[r.Intn(3)]
		cfg := sCfg{tr, en, bs, 1, 32, 0, false}
		last := int(bs)/3 + r.Intn(int(bs)/3)
		dseed := r.U64()
		data := append(mkData(pr[0], r.Range(1, 3)*int(bs), dseed), mkData(pr[1], last, dseed+1)...)
		ref, stage, err := compress(cfg, data, nil)
		if stage != "" || err != nil {
			continue
		}
		nontrivial++
		for _, j := range []uint{2, 3, 4, 5} {
			c2 := cfg
			c2.Jobs = j
			out, _, err := compress(c2, data, nil)
			c.Count("evaluations", 1)
			c.Hist("variant", "slot-history")
			if err != nil || !bytes.Equal(out, ref) {
				c.Violation(map[string]any{"what": fmt.Sprintf("output with %d jobs differs from the jobs=1 reference: %s vs %s err=%v", j, short(out), short(ref), err),
					"cfg": cfg.String(), "data": fmt.Sprintf("full blocks of %q then %d bytes of %q, dataseed %d", pr[0], last, pr[1], dseed)})
				break
			}
		}
	}
	c.Stats["distinct_nontrivial"] = nontrivial
}

// ------------------------------------------------------------------ C05
func runC05(c *Ctx, _ []string) {
	r := NewRng(c.Seed ^ 0x0505)
	n := 30 * c.Scale
	c.Stats["samples"] = []any{}
	nontrivial := 0
	for i := 0; i < n; i++ {
		cfg := randCfg(r, false)
		if cfg.Checksum == 0 {
			cfg.Checksum = 32
		}
		cfg.Headerless = false
		shape := dataShapes[r.Intn(len(dataShapes)-1)]
		nb := r.Range(2, 12)
		size := nb*int(cfg.Block) - r.Intn(int(cfg.Block))
		if size > 200000 {
			cfg.Block = 4096
			size = nb*4096 - r.Intn(4096)
		}
		bigBWT := i == 3 // blocks above the 4 MiB threshold of the parallel inverse BWT, size in the header: with more jobs than blocks a task gets several jobs
		many := i < 3    // more blocks than the 6-bit block-count hint of the header can express (63 = "63 or more")
		if many {
			cfg.Block = 1024
			nb = []int{64, 65, 130}[i]
			size = nb*1024 - r.Intn(1024)
		}
		if bigBWT {
			cfg = sCfg{"BWT", "NONE", 8 << 20, 1, 0, 0, false}
			nb = 2
			size = 8<<20 + 5<<20
			shape = "text"
		}
		dseed := r.U64()
		data := mkData(shape, size, dseed)
		hk := setHint(r, &cfg, size)
		if hk == "smaller" || many || bigBWT {
			cfg.Hint = int64(size)
		}
		stream, stage, err := compress(cfg, data, nil)
		if stage != "" || err != nil {
			continue
		}
		nontrivial++
		desc := map[string]any{"cfg": cfg.String(), "data": describe(shape, size, dseed)}
		viol := func(f string, a ...any) {
			d := map[string]any{"what": fmt.Sprintf(f, a...)}
			for k, v := range desc {
				d[k] = v
			}
			c.Violation(d)
		}
		// 1. same bytes for every job count, perturbed schedules
		jobList := []uint{1, 2, 3, 4, 5, 8, uint(r.Range(9, 64))}
		if bigBWT {
			jobList = []uint{1, 2, 5, 6, 7, 11, 14}
		}
		for _, j := range jobList {
			undo := installPerturb(r.U64())
			res := decompressTimed(stream, cfg, j, []int{1 + r.Intn(3*int(cfg.Block))}, 1, nil, 60*time.Second)
			undo()
			c.Count("evaluations", 1)
			c.Hist("kind", "jobs-independence")
			if res.err != nil || res.panic != nil || !res.eof || !bytes.Equal(res.data, data) {
				viol("decoding with %d jobs: err=%v panic=%v eof=%v got=%s want=%s", j, res.err, res.panic, res.eof, short(res.data), short(data))
			}
		}
		if bigBWT {
			continue
		}
		// 2. a failing block at every position: the error is reported, nothing from beyond the failed block
		ci := parseContainer(stream, false, 0)
		if !ci.OK {
			viol("independent parser rejects the stream: %s", ci.Why)
			continue
		}
		for fi, f := range ci.Frames {
			if len(ci.Frames) > 8 && r.Intn(2) == 0 {
				continue
			}
			bad := append([]byte{}, stream...)
			if f.PayloadLen-(f.DataBit-f.PayloadBit) < 8 {
				continue
			}
			flipBit(bad, f.DataBit+r.Intn(f.PayloadLen-(f.DataBit-f.PayloadBit)))
			for _, j := range []uint{1, 2, 3, 4, uint(r.Range(5, 9))} {
				rs := 1 + r.Intn(2*int(cfg.Block))
				undo := installPerturb(r.U64())
				res := decompressTimed(bad, cfg, j, []int{rs}, 4, nil, 60*time.Second)
				undo()
				c.Count("evaluations", 1)
				c.Hist("kind", "failing-block")
				boundary := fi * int(cfg.Block)
				switch {
				case res.timeout || res.panic != nil:
					viol("block %d damaged, %d jobs: timeout=%v panic=%v", fi+1, j, res.timeout, res.panic)
				case res.eof && bytes.Equal(res.data, data):
					// the flip did not change the decoded bytes (possible for some codecs)
				case res.err == nil:
					viol("block %d damaged, %d jobs: no error reported, eof=%v got=%s", fi+1, j, res.eof, short(res.data))
				case !isPrefix(res.data, data):
					viol("block %d damaged, %d jobs: returned bytes are not a prefix of the original", fi+1, j)
				case len(res.data) > boundary:
					viol("block %d damaged, %d jobs: %d bytes returned, beyond the failed block (starts at %d)", fi+1, j, len(res.data), boundary)
				default:
					for _, t := range res.trail {
						if !strings.HasPrefix(t, "n=0 err") {
							viol("block %d damaged, %d jobs: Read after the error returned %s", fi+1, j, t)
							break
						}
					}
				}
			}
		}
		if len(c.Stats["samples"].([]any)) < 3 {
			desc["blocks"] = len(ci.Frames)
			c.Stats["samples"] = append(c.Stats["samples"].([]any), desc)
		}
	}
	c.Stats["distinct_nontrivial"] = nontrivial
}

// ------------------------------------------------------------------ C06 (stream level)
func runC06(c *Ctx, _ []string) {
	r := NewRng(c.Seed ^ 0x0606)
	n := 60 * c.Scale
	c.Stats["samples"] = []any{}
	nontrivial := 0
	small := []int{1, 2, 3, 5, 7, 8, 9, 10, 13, 100, 1021, 4093, 4096}
	for i := 0; i < n; i++ {
		cfg := randCfg(r, false)
		shape := dataShapes[r.Intn(len(dataShapes))]
		size := pickSize(r, cfg.Block)
		if size > 120000 {
			size = 120000
		}
		dseed := r.U64()
		data := mkData(shape, size, dseed)
		setHint(r, &cfg, size)
		if cfg.Hint < int64(size) {
			cfg.Hint = 0
		}
		ref, stage, err := compress(cfg, data, nil)
		if stage != "" || err != nil {
			continue
		}
		nontrivial++
		desc := map[string]any{"cfg": cfg.String(), "data": describe(shape, size, dseed)}
		viol := func(f string, a ...any) {
			d := map[string]any{"what": fmt.Sprintf(f, a...)}
			for k, v := range desc {
				d[k] = v
			}
			c.Violation(d)
		}
		// write side: any partition gives the same stream
		for _, part := range [][]int{{1 + r.Intn(100)}, {0, 1 + r.Intn(3*int(cfg.Block)), 0, 0, 7}, {int(cfg.Block) + 1}} {
			out, _, err := compress(cfg, data, part)
			c.Count("evaluations", 1)
			c.Hist("kind", "write-partition")
			if err != nil || !bytes.Equal(out, ref) {
				viol("Write partition %v changes the stream: %s vs %s err=%v", part, short(out), short(ref), err)
			}
		}
		// read side: short reads from the source x Read buffer sizes (0 included)
		for k := 0; k < 6; k++ {
			var sched []int
			chunk := small[r.Intn(len(small))]
			if r.Bool() {
				for j := 0; j < len(ref)/chunk+8 && j < 200000; j++ {
					sched = append(sched, chunk)
				}
			} else {
				for j := 0; j < 3000; j++ {
					sched = append(sched, small[r.Intn(len(small))])
				}
			}
			sizes := []int{1 + r.Intn(2*int(cfg.Block))}
			if r.Intn(3) == 0 {
				sizes = []int{0, 1 + r.Intn(5000), 0, 3}
			}
			src := &schedSource{data: ref, sched: sched, eofWithData: k%2 == 1}
			jobs := uint(r.Range(1, 5))
			rd, err := newReader(src, cfg, jobs, nil)
			if err != nil {
				viol("reader construction: %v", err)
				continue
			}
			ch := make(chan readResult, 1)
			go func() { ch <- readAll(rd, sizes, 1, 0) }()
			var res readResult
			select {
			case res = <-ch:
			case <-time.After(90 * time.Second):
				res = readResult{timeout: true}
			}
			c.Count("evaluations", 1)
			c.Hist("kind", "short-reads")
			c.Hist("chunk", fmt.Sprint(chunk))
			if res.timeout || res.panic != nil || res.err != nil || !res.eof || !bytes.Equal(res.data, data) {
				viol("source chunks of %d bytes (mixed=%v), Read sizes %v, %d jobs: err=%v panic=%v timeout=%v eof=%v got=%s want=%s",
					chunk, len(sched) == 3000, sizes, jobs, res.err, res.panic, res.timeout, res.eof, short(res.data), short(data))
			}
		}
		if len(c.Stats["samples"].([]any)) < 3 {
			c.Stats["samples"] = append(c.Stats["samples"].([]any), desc)
		}
	}
	c.Stats["distinct_nontrivial"] = nontrivial
}

// ------------------------------------------------------------------ C09
func runC09(c *Ctx, _ []string) {
	r := NewRng(c.Seed ^ 0x0909)
	n := 14 * min(c.Scale, 6) // thorough: 84 streams, every cut of the first ones (measured: about 10 minutes alone)
	c.Stats["samples"] = []any{}
	nontrivial := 0
	exhaustive := true
	c09Budget := 150000
	for i := 0; i < n; i++ {
		cfg := randCfg(r, false)
		cfg.Block = []uint{1024, 1024, 2048, 4096}[r.Intn(4)]
		if i%3 == 0 {
			cfg.Transform, cfg.Entropy = "NONE", "NONE" // block boundaries at byte-predictable places
		}
		shape := dataShapes[r.Intn(len(dataShapes))]
		size := r.Range(0, 5) * int(cfg.Block)
		if r.Bool() {
			size += r.Intn(int(cfg.Block))
		}
		dseed := r.U64()
		data := mkData(shape, size, dseed)
		if r.Bool() {
			cfg.Hint = int64(size)
		}
		stream, stage, err := compress(cfg, data, nil)
		if stage != "" || err != nil {
			continue
		}
		nontrivial++
		desc := map[string]any{"cfg": cfg.String(), "data": describe(shape, size, dseed), "stream_len": len(stream)}
		cuts := []int{}
		if len(stream) <= 4200 && c.Scale == 1 || c.Scale > 1 && len(stream) <= 20000 && c09Budget >= len(stream) {
			// every cut (thorough: for streams up to 20000 bytes, within a total of 150000 cuts per run, then boundary-focused + random)
			if c.Scale > 1 {
				c09Budget -= len(stream)
			}
			for k := 0; k < len(stream); k++ {
				cuts = append(cuts, k)
			}
		} else {
			exhaustive = false
			ci := parseContainer(stream, cfg.Headerless, int(cfg.Checksum))
			for _, f := range ci.Frames { // around every frame boundary
				for d := -3; d <= 3; d++ {
					k := f.FrameBit/8 + d
					if k >= 0 && k < len(stream) {
						cuts = append(cuts, k)
					}
				}
			}
			for d := 1; d <= 12 && d <= len(stream); d++ {
				cuts = append(cuts, len(stream)-d)
			}
			for k := 0; k < 300; k++ {
				cuts = append(cuts, r.Intn(len(stream)))
			}
		}
		for _, k := range cuts {
			jobs := uint(1 + k%3)
			res := decompressTimed(stream[:k], cfg, jobs, []int{1 + (k*7)%5000}, 2, nil, 60*time.Second)
			c.Count("evaluations", 1)
			what := ""
			switch {
			case res.timeout || res.panic != nil:
				what = fmt.Sprintf("timeout=%v panic=%v", res.timeout, res.panic)
			case res.err == nil:
				what = fmt.Sprintf("reported as complete (eof=%v, %d of %d bytes)", res.eof, len(res.data), len(data))
			case !isPrefix(res.data, data):
				what = "returned bytes that are not a prefix of the original"
			default:
				for _, t := range res.trail {
					if strings.HasSuffix(t, "EOF") || strings.Contains(t, "DATA") {
						what = "Read after the error returned " + t
					}
				}
			}
			if what != "" {
				d := map[string]any{"what": fmt.Sprintf("prefix of %d/%d bytes, %d jobs: %s", k, len(stream), jobs, what), "cut": k}
				for kk, v := range desc {
					d[kk] = v
				}
				d["key"] = "impl:truncated stream accepted: " + cfg.Transform + "/" + cfg.Entropy
				c.Violation(d)
				break
			}
		}
		if len(c.Stats["samples"].([]any)) < 3 {
			desc["cuts"] = len(cuts)
			c.Stats["samples"] = append(c.Stats["samples"].([]any), desc)
		}
	}
	c.Stats["exhaustive_over_cuts_for_small_streams"] = exhaustive
	c.Stats["distinct_nontrivial"] = nontrivial
}

// ------------------------------------------------------------------ C11
type evtListener struct {
	mu     sync.Mutex
	events map[int][]int // block id -> event types
}

func (l *evtListener) ProcessEvent(e *kanzi.Event) {
	l.mu.Lock()
	l.events[e.ID()] = append(l.events[e.ID()], e.Type())
	l.mu.Unlock()
}

func runC11(c *Ctx, _ []string) {
	r := NewRng(c.Seed ^ 0x1111)
	n := 6 * c.Scale
	c.Stats["samples"] = []any{}
	nontrivial := 0
	for i := 0; i < n; i++ {
		cfg := randCfg(r, false)
		cfg.Headerless = false
		cfg.Block = []uint{1024, 2048, 4096}[r.Intn(3)]
		nb := r.Range(1, 12)
		many := i == 0 // more blocks than the header's block-count hint can express (63 = "63 or more"), size in the header
		if many {
			nb = 80
			cfg.Block = 1024
			if cfg.Entropy == "TPAQ" || cfg.Entropy == "TPAQX" || cfg.Entropy == "CM" {
				cfg.Entropy = "HUFFMAN"
			}
		}
		size := nb*int(cfg.Block) - r.Intn(int(cfg.Block))
		shape := dataShapes[r.Intn(len(dataShapes))]
		dseed := r.U64()
		data := mkData(shape, size, dseed)
		if r.Bool() || many {
			cfg.Hint = int64(size)
		}
		stream, stage, err := compress(cfg, data, nil)
		if stage != "" || err != nil {
			continue
		}
		desc := map[string]any{"cfg": cfg.String(), "data": describe(shape, size, dseed), "blocks": nb}
		B := int(cfg.Block)
		edge := map[int]bool{1: true, 2: true, 62: true, 63: true, 64: true, 65: true, 66: true, 79: true, 80: true, 81: true, 82: true}
		for from := 1; from <= nb+2; from++ {
			for to := from; to <= nb+2; to++ {
				if many && !(edge[from] && edge[to]) {
					continue
				}
				for _, jobs := range []uint{1, 2, 3, 4, 5, 6, 7, 8} {
					if c.Scale == 1 && (from*7+to*3+int(jobs)+i)%3 != 0 {
						continue
					}
					lo, hi := (from-1)*B, (to-1)*B
					if lo > len(data) {
						lo = len(data)
					}
					if hi > len(data) {
						hi = len(data)
					}
					want := data[lo:hi]
					rd, err := newReader(stdio.NopCloser(bytes.NewReader(stream)), cfg, jobs, map[string]any{"from": from, "to": to})
					if err != nil {
						continue
					}
					lst := &evtListener{events: map[int][]int{}}
					rd.AddListener(lst)
					ch := make(chan readResult, 1)
					go func() { ch <- readAll(rd, []int{1 + (from*131+to*17)%(3*B)}, 1, 0) }()
					var res readResult
					select {
					case res = <-ch:
					case <-time.After(30 * time.Second):
						res = readResult{timeout: true}
					}
					c.Count("evaluations", 1)
					nontrivial++
					what := ""
					if res.timeout || res.panic != nil || res.err != nil || !res.eof || !bytes.Equal(res.data, want) {
						what = fmt.Sprintf("err=%v panic=%v timeout=%v eof=%v got=%s want=%s", res.err, res.panic, res.timeout, res.eof, short(res.data), short(want))
					} else {
						lst.mu.Lock()
						for id, evs := range lst.events {
							if id >= 1 && (id < from || id >= to) {
								for _, e := range evs {
									if e == kanzi.EVT_BEFORE_ENTROPY || e == kanzi.EVT_AFTER_ENTROPY || e == kanzi.EVT_BEFORE_TRANSFORM {
										what = fmt.Sprintf("block %d is outside the range but was decoded (event %d)", id, e)
									}
								}
							}
						}
						lst.mu.Unlock()
					}
					if what != "" {
						d := map[string]any{"what": fmt.Sprintf("range [%d,%d) with %d jobs: %s", from, to, jobs, what), "from": from, "to": to, "jobs": jobs}
						for k, v := range desc {
							d[k] = v
						}
						c.Violation(d)
					}
				}
			}
		}
		if len(c.Stats["samples"].([]any)) < 3 {
			c.Stats["samples"] = append(c.Stats["samples"].([]any), desc)
		}
	}
	c.Stats["distinct_nontrivial"] = nontrivial
}

// ------------------------------------------------------------------ C02
func runC02(c *Ctx, _ []string) {
	r := NewRng(c.Seed ^ 0x0202)
	n := 16 * min(c.Scale, 6) // thorough: 96 streams, the first ones flipped exhaustively (measured: about 10 minutes alone)
	c.Stats["samples"] = []any{}
	nontrivial := 0
	exhaustLeft := 60000
	for i := 0; i < n; i++ {
		cfg := randCfg(r, false)
		cfg.Checksum = []uint{32, 64}[r.Intn(2)]
		cfg.Block = []uint{1024, 1024, 2048, 4096}[r.Intn(4)]
		shape := dataShapes[r.Intn(len(dataShapes))]
		nb := r.Range(1, 5)
		size := nb*int(cfg.Block) - r.Intn(int(cfg.Block))
		if i%4 == 0 { // short final block (stored raw when <= 15 bytes)
			size = (nb-1)*int(cfg.Block) + r.Range(1, 15)
		}
		dseed := r.U64()
		data := mkData(shape, size, dseed)
		stream, stage, err := compress(cfg, data, nil)
		if stage != "" || err != nil {
			continue
		}
		ci := parseContainer(stream, cfg.Headerless, int(cfg.Checksum))
		desc := map[string]any{"cfg": cfg.String(), "data": describe(shape, size, dseed)}
		if !ci.OK {
			desc["what"] = "independent parser rejects the stream: " + ci.Why
			c.Violation(desc)
			continue
		}
		nontrivial++
		judge := func(kind string, bad []byte, note string, extra func()) {
			jobs := uint(r.Range(1, 4))
			if extra != nil {
				extra()
			}
			res := decompressTimed(bad, cfg, jobs, []int{1 + r.Intn(3*int(cfg.Block))}, 4, nil, 60*time.Second)
			kio.VerifCorruptHook.Store(nil)
			c.Count("evaluations", 1)
			c.Hist("kind", kind)
			what := ""
			switch {
			case res.timeout || res.panic != nil:
				what = fmt.Sprintf("timeout=%v panic=%v", res.timeout, res.panic)
			case res.err == nil && !(res.eof && bytes.Equal(res.data, data)):
				what = fmt.Sprintf("different bytes returned as a success (eof=%v got=%s want=%s)", res.eof, short(res.data), short(data))
			case !isPrefix(res.data, data):
				what = "bytes returned before the error are not a prefix of the original"
			default:
				for _, t := range res.trail {
					if strings.Contains(t, "DATA") || (res.err != nil && strings.HasSuffix(t, "EOF")) {
						what = "Read after the error returned " + t
					}
				}
			}
			if res.err != nil {
				c.Hist("outcome", "error")
			} else {
				c.Hist("outcome", "original")
			}
			if what != "" {
				d := map[string]any{"what": kind + " " + note + ", " + fmt.Sprint(jobs) + " jobs: " + what}
				for k, v := range desc {
					d[k] = v
				}
				c.Violation(d)
			}
		}
		// payload bit positions (everything after the frame length field, i.e. mode byte .. last payload bit)
		var pos []int
		for _, f := range ci.Frames {
			for b := 0; b < f.PayloadLen; b++ {
				pos = append(pos, f.PayloadBit+b)
			}
		}
		flips := 150
		if c.Scale > 1 && len(pos) < 40000 && exhaustLeft >= len(pos) {
			flips = len(pos) // exhaustive single-bit flips, within a total of 60000 per run (then sampled as in the quick tier)
			exhaustLeft -= len(pos)
			c.Count("streams_flipped_exhaustively", 1)
		}
		for k := 0; k < flips; k++ {
			p := pos[r.Intn(len(pos))]
			if flips == len(pos) {
				p = pos[k]
			} else if k < 40 { // the tail of each block: last bytes of the payload
				f := ci.Frames[r.Intn(len(ci.Frames))]
				p = f.PayloadBit + f.PayloadLen - 1 - r.Intn(min(24, f.PayloadLen))
			}
			bad := append([]byte{}, stream...)
			flipBit(bad, p)
			judge("bitflip", bad, fmt.Sprintf("bit %d", p), nil)
		}
		for k := 0; k < 40; k++ { // multi-flips, byte substitution, byte swap inside payloads
			bad := append([]byte{}, stream...)
			f := ci.Frames[r.Intn(len(ci.Frames))]
			lo, hi := (f.PayloadBit+7)/8, (f.PayloadBit+f.PayloadLen)/8
			if hi-lo < 2 {
				continue
			}
			switch k % 3 {
			case 0:
				for j := 0; j < r.Range(2, 9); j++ {
					flipBit(bad, f.PayloadBit+r.Intn(f.PayloadLen))
				}
				judge("multiflip", bad, fmt.Sprintf("frame at bit %d", f.FrameBit), nil)
			case 1:
				bad[lo+r.Intn(hi-lo)] = byte(r.Intn(256))
				judge("substitute", bad, fmt.Sprintf("frame at bit %d", f.FrameBit), nil)
			default:
				a, b := lo+r.Intn(hi-lo), lo+r.Intn(hi-lo)
				bad[a], bad[b] = bad[b], bad[a]
				judge("swap", bad, fmt.Sprintf("frame at bit %d", f.FrameBit), nil)
			}
		}
		// the stored checksum replaced by a special value (all zeros, all ones, one), together with a flip in the coded data
		if ci.Checksum > 0 {
			for k := 0; k < 3*len(ci.Frames) && k < 24; k++ {
				f := ci.Frames[k%len(ci.Frames)]
				dataBits := f.PayloadLen - (f.DataBit - f.PayloadBit)
				if dataBits < 8 || f.DataBit-ci.Checksum < f.PayloadBit {
					continue
				}
				bad := append([]byte{}, stream...)
				for j := 0; j < ci.Checksum; j++ {
					bit := f.DataBit - ci.Checksum + j
					want := []bool{false, true, j == ci.Checksum-1}[(k/len(ci.Frames))%3]
					if (bad[bit/8]>>(7-uint(bit%8)))&1 == 1 != want {
						flipBit(bad, bit)
					}
				}
				flipBit(bad, f.DataBit+r.Intn(dataBits))
				judge("checksum-field", bad, fmt.Sprintf("frame at bit %d, stored checksum forced to %s", f.FrameBit, []string{"0", "all ones", "1"}[(k/len(ci.Frames))%3]), nil)
			}
		}
		// damage inside the pipeline (after entropy decoding / after the inverse transforms)
		for k := 0; k < 12; k++ {
			stageNo := k % 2
			target := int32(1 + r.Intn(len(ci.Frames)))
			off := r.Intn(1 << 20)
			bitn := uint(r.Intn(8))
			judge("pipeline", stream, fmt.Sprintf("stage %d block %d", stageNo, target), func() {
				var h kio.VerifCorruptor = func(st int, id int32, buf []byte) {
					if st == stageNo && id == target && len(buf) > 0 {
						buf[off%len(buf)] ^= 1 << bitn
					}
				}
				kio.VerifCorruptHook.Store(&h)
			})
		}
		if len(c.Stats["samples"].([]any)) < 3 {
			desc["frames"] = len(ci.Frames)
			desc["payload_bits"] = len(pos)
			c.Stats["samples"] = append(c.Stats["samples"].([]any), desc)
		}
	}
	c.Stats["distinct_nontrivial"] = nontrivial
}

// ------------------------------------------------------------------ C08 (stream level)
type faultWC struct {
	data      []byte
	calls     int
	failAt    int  // index of the failing Write call (1-based)
	permanent bool // every call from failAt on fails
	hit       bool
	closeErr  bool
	partial   bool // a failing call accepts the first half of the bytes: returns (n > 0, err)
}

func (s *faultWC) Write(b []byte) (int, error) {
	s.calls++
	if s.failAt > 0 && (s.calls == s.failAt || (s.permanent && s.calls > s.failAt)) {
		s.hit = true
		if s.partial && len(b) > 1 {
			s.data = append(s.data, b[:len(b)/2]...)
			return len(b) / 2, fmt.Errorf("sink failure after a partial write (injected at call %d)", s.calls)
		}
		return 0, fmt.Errorf("sink failure (injected at call %d)", s.calls)
	}
	s.data = append(s.data, b...)
	return len(b), nil
}
func (s *faultWC) Close() error {
	if s.closeErr {
		s.hit = true
		return fmt.Errorf("sink close failure (injected)")
	}
	return nil
}

func guardErr(f func() error) (err error, panicked any) {
	defer func() {
		if r := recover(); r != nil {
			panicked = r
		}
	}()
	return f(), nil
}

func runC08(c *Ctx, _ []string) {
	r := NewRng(c.Seed ^ 0x0808)
	c.Stats["samples"] = []any{}
	nontrivial := 0
	type scen struct {
		cfg   sCfg
		shape string
		size  int
		part  []int
	}
	scens := []scen{
		{sCfg{"NONE", "NONE", 1 << 20, 1, 0, 0, false}, "random", 262108, nil}, // end marker lands on the flush boundary
		{sCfg{"NONE", "NONE", 1 << 20, 1, 0, 0, false}, "random", 700000, nil},
		{sCfg{"LZ", "HUFFMAN", 65536, 3, 32, 0, false}, "random", 900000, []int{100000}},
	}
	for i := 0; i < 2*c.Scale; i++ {
		cfg := randCfg(r, false)
		cfg.Jobs = uint(r.Range(1, 4))
		cfg.Block = []uint{65536, 262144, 524288}[r.Intn(3)]
		scens = append(scens, scen{cfg, []string{"random", "exe", "mm"}[r.Intn(3)], r.Range(300000, 1500000), []int{r.Range(1000, 400000)}})
	}
	for si, sc := range scens {
		dseed := uint64(si) + c.Seed
		data := mkData(sc.shape, sc.size, dseed)
		ref := &faultWC{}
		if st, err := compressTo(ref, sc.cfg, data, sc.part); err != nil || st != "" {
			continue
		}
		K := ref.calls
		nontrivial++
		desc := map[string]any{"cfg": sc.cfg.String(), "data": describe(sc.shape, sc.size, dseed), "sink_calls": K}
		viol := func(f string, a ...any) {
			d := map[string]any{"what": fmt.Sprintf(f, a...)}
			for k, v := range desc {
				d[k] = v
			}
			c.Violation(d)
		}
		// ---- sink faults: every call index, transient and permanent, plus a failing Close of the sink
		for k := 1; k <= K+1; k++ {
			for mode := 0; mode < 3; mode++ {
				perm := mode >= 1
				// mode 2: from call k on the sink accepts half of each write and reports an error (io.Writer allows n > 0 with err != nil)
				sink := &faultWC{failAt: k, permanent: perm, partial: mode == 2}
				if k == K+1 {
					if perm {
						continue
					}
					sink = &faultWC{closeErr: true}
				}
				c.Count("evaluations", 1)
				c.Hist("kind", "sink-fault")
				var results []string
				anyErr, closeOK := false, false
				var pnc any
				w, err := kio.NewWriter(sink, sc.cfg.Transform, sc.cfg.Entropy, sc.cfg.Block, sc.cfg.Jobs, sc.cfg.Checksum, sc.cfg.Hint, sc.cfg.Headerless)
				if err != nil {
					continue
				}
				done := make(chan bool, 1)
				go func() { // the whole call sequence under a watchdog: a hang is a violation
					off := 0
					for off < len(data) && pnc == nil {
						n := len(data) - off
						if sc.part != nil && sc.part[0] < n {
							n = sc.part[0]
						}
						var e error
						e, pnc = guardErr(func() error { _, e := w.Write(data[off : off+n]); return e })
						results = append(results, "W:"+errTag(e))
						if e != nil {
							anyErr = true
						}
						off += n
					}
					for t := 0; t < 3 && pnc == nil; t++ {
						var e error
						e, pnc = guardErr(func() error { return w.Close() })
						results = append(results, "C:"+errTag(e))
						if e != nil {
							anyErr = true
						} else {
							closeOK = true
						}
						if k == K+1 && t == 0 {
							sink.closeErr = false // transient failure of the sink's Close
						}
					}
					done <- true
				}()
				hung := false
				select {
				case <-done:
				case <-time.After(60 * time.Second):
					hung = true
				}
				tag := fmt.Sprintf("sink fault at call %d/%d permanent=%v jobs=%d: %v", k, K, perm, sc.cfg.Jobs, results)
				if hung {
					viol("sink fault at call %d/%d permanent=%v jobs=%d: the Writer did not return within 60 s (hang)", k, K, perm, sc.cfg.Jobs)
					c.Stats["distinct_nontrivial"] = nontrivial
					return // goroutines are stuck: stop this run
				}
				switch {
				case pnc != nil:
					viol("%s: PANIC escaped: %v", tag, pnc)
				case sink.hit && !anyErr:
					viol("%s: the sink failed but no API call returned an error", tag)
				case closeOK:
					res := decompressTimed(sink.data, sc.cfg, 2, nil, 0, nil, 120*time.Second)
					if res.err != nil || !res.eof || !bytes.Equal(res.data, data) {
						viol("%s: Close reported success but the sink holds %d bytes that do not decode to the data (err=%v)", tag, len(sink.data), res.err)
					}
				}
			}
		}
		// ---- source faults
		stream := ref.data
		probe := &schedSource{data: stream}
		rd0, _ := newReader(probe, sc.cfg, 2, nil)
		readAll(rd0, []int{70000}, 0, 0)
		R := probe.calls
		desc["source_calls"] = R
		// (chunk 0: the source fills every request; 3 and 7: short reads, so that the failing call can be a
		// continuation read of the bit stream's refill loop - sampled call indices there)
		type srcCase struct{ k, chunk int }
		var srcCases []srcCase
		for k := 1; k <= R; k++ {
			srcCases = append(srcCases, srcCase{k, 0})
		}
		for _, ch := range []int{3, 7} {
			total := len(stream)/ch + 2
			for k := 1; k <= 24 && k <= total; k++ {
				srcCases = append(srcCases, srcCase{k, ch})
			}
			for j := 0; j < 6; j++ {
				srcCases = append(srcCases, srcCase{r.Range(1, total), ch})
			}
		}
		for _, scs := range srcCases {
			k := scs.k
			for _, jobs := range []uint{1, 3} {
				src := &schedSource{data: stream, rfail: k, chunk: scs.chunk, offAtFail: -1}
				rd, err := newReader(src, sc.cfg, jobs, nil)
				if err != nil {
					continue
				}
				c.Count("evaluations", 1)
				c.Hist("kind", "source-fault")
				ch := make(chan readResult, 1)
				go func() { ch <- readAll(rd, []int{3000 + 7*k}, 3, 0) }()
				var res readResult
				select {
				case res = <-ch:
				case <-time.After(60 * time.Second):
					res = readResult{timeout: true}
				}
				tag := fmt.Sprintf("source fault at call %d/%d chunk=%d jobs=%d", k, R, scs.chunk, jobs)
				hit := src.calls >= k
				switch {
				case res.timeout || res.panic != nil:
					viol("%s: timeout=%v panic=%v", tag, res.timeout, res.panic)
				case hit && res.err == nil && src.offAtFail >= 0 && src.offAtFail < len(stream):
					// the failing call was needed to obtain the rest of the stream: swallowing it is never harmless
					viol("%s: the source failed after delivering %d of %d bytes but Read never returned an error (eof=%v, %d bytes returned)", tag, src.offAtFail, len(stream), res.eof, len(res.data))
				case hit && res.err == nil && !(res.eof && bytes.Equal(res.data, data)):
					// (a failing read-ahead after the end marker was already delivered is harmless)
					viol("%s: the source failed but Read never returned an error (eof=%v, %d bytes)", tag, res.eof, len(res.data))
				case !isPrefix(res.data, data):
					viol("%s: bytes returned are not a prefix of the original", tag)
				default:
					for _, t := range res.trail {
						if res.err != nil && (strings.HasSuffix(t, "EOF") || strings.Contains(t, "DATA")) && k > 1 {
							viol("%s: after the error, Read returned %s", tag, t)
							break
						}
					}
				}
			}
		}
		if len(c.Stats["samples"].([]any)) < 3 {
			c.Stats["samples"] = append(c.Stats["samples"].([]any), desc)
		}
	}
	c.Stats["exhaustive"] = true
	c.Stats["distinct_nontrivial"] = nontrivial
}

// ------------------------------------------------------------------ C17
func runC17(c *Ctx, _ []string) {
	r := NewRng(c.Seed ^ 0x1717)
	c.Stats["samples"] = []any{}
	nontrivial := 0
	n := 120 * c.Scale
	for i := 0; i < n; i++ {
		cfg := randCfg(r, false)
		cfg.Jobs = uint(r.Range(1, 4))
		cfg.Block = []uint{1024, 2048, 4096}[r.Intn(3)]
		B := int(cfg.Block)
		sink := &memSink{}
		w, err := kio.NewWriter(sink, cfg.Transform, cfg.Entropy, cfg.Block, cfg.Jobs, cfg.Checksum, 0, cfg.Headerless)
		if err != nil {
			continue
		}
		c.Count("evaluations", 1)
		prog := []string{}
		bad := ""
		fail := func(f string, a ...any) {
			if bad == "" {
				bad = fmt.Sprintf(f, a...)
			}
		}
		panicked := false
		guard := func(what string, f func()) {
			defer func() {
				if e := recover(); e != nil {
					panicked = true
					fail("%s panicked: %v", what, e)
				}
			}()
			f()
		}
		report := func(dataLen int) {
			c.Hist("empty_stream", fmt.Sprint(dataLen == 0))
			if bad != "" {
				c.Violation(map[string]any{"what": bad, "cfg": cfg.String(), "program": strings.Join(prog, " ; ")})
			}
			if len(c.Stats["samples"].([]any)) < 3 {
				c.Stats["samples"] = append(c.Stats["samples"].([]any), strings.Join(prog, " ; "))
			}
		}
		var data []byte
		closed := false
		lastW := uint64(0)
		nops := r.Range(1, 14)
		dr := NewRng(r.U64())
		for k := 0; k < nops && !panicked; k++ {
			switch op := r.Intn(10); {
			case op < 6 && !(closed && r.Intn(3) != 0):
				var ln int
				switch r.Intn(6) {
				case 0:
					ln = 0
				case 1:
					ln = B
				case 2:
					ln = B * int(cfg.Jobs)
				default:
					ln = r.Intn(3 * B)
				}
				buf := genData(dr, "text", ln)
				before, sinkBefore := w.GetWritten(), sink.buf.Len()
				var k2 int
				var err error
				guard(fmt.Sprintf("Write(%d) on a writer (closed=%v)", ln, closed), func() { k2, err = w.Write(buf) })
				prog = append(prog, fmt.Sprintf("Write(%d)", ln))
				if panicked {
					break
				}
				if closed {
					if err == nil {
						fail("Write(%d) after Close returned nil", ln)
					}
					if k2 != 0 || w.GetWritten() != before || sink.buf.Len() != sinkBefore {
						fail("Write after Close had side effects (n=%d, GetWritten %d->%d, sink %d->%d)", k2, before, w.GetWritten(), sinkBefore, sink.buf.Len())
					}
				} else {
					if err != nil || k2 != ln {
						fail("Write(%d) on an open writer returned (%d, %v)", ln, k2, err)
					}
					data = append(data, buf...)
				}
			case op < 8:
				var err error
				guard("Writer.Close", func() { err = w.Close() })
				prog = append(prog, "Close")
				if panicked {
					break
				}
				if err != nil {
					fail("Close returned %v", err)
				}
				if !closed && uint64(sink.buf.Len()) != w.GetWritten() {
					fail("after Close GetWritten() = %d but the sink received %d bytes", w.GetWritten(), sink.buf.Len())
				}
				if closed && !sink.closed {
					fail("underlying sink not closed")
				}
				closed = true
			default:
				prog = append(prog, "GetWritten")
			}
			if panicked {
				break
			}
			gw := w.GetWritten()
			if gw < lastW {
				fail("GetWritten went from %d to %d", lastW, gw)
			}
			lastW = gw
		}
		if !closed && !panicked {
			var err error
			guard("Writer.Close", func() { err = w.Close() })
			if err != nil {
				fail("Close returned %v", err)
			}
			prog = append(prog, "Close")
		}
		if panicked {
			report(len(data))
			continue
		}
		if uint64(sink.buf.Len()) != w.GetWritten() {
			fail("after Close GetWritten() = %d but the sink received %d bytes", w.GetWritten(), sink.buf.Len())
		}
		if len(data) > B {
			nontrivial++
		}
		// reader life cycle on the produced stream
		rd, err := newReader(stdio.NopCloser(bytes.NewReader(sink.buf.Bytes())), cfg, uint(r.Range(1, 4)), nil)
		if err != nil {
			fail("reader construction: %v", err)
		} else {
			var got []byte
			rclosed, eof := false, false
			lastR := uint64(0)
			for k := 0; k < r.Range(2, 14) && !panicked; k++ {
				switch op := r.Intn(10); {
				case op < 7:
					ln := []int{0, 1, B, B * 2, r.Intn(5 * B)}[r.Intn(5)]
					buf := make([]byte, ln)
					var k2 int
					var err error
					guard(fmt.Sprintf("Read(%d)", ln), func() { k2, err = rd.Read(buf) })
					prog = append(prog, fmt.Sprintf("Read(%d)", ln))
					switch {
					case panicked:
					case rclosed:
						if err == nil || err == stdio.EOF || k2 != 0 {
							fail("Read after Close returned (%d, %v)", k2, err)
						}
					case err == stdio.EOF:
						eof = true
						if k2 != 0 {
							fail("Read returned data together with EOF")
						}
					case err != nil:
						fail("Read returned %v on a valid stream", err)
					default:
						if eof && k2 > 0 {
							fail("Read returned data after EOF")
						}
						got = append(got, buf[:k2]...)
					}
				case op < 9:
					var err error
					guard("Reader.Close", func() { err = rd.Close() })
					if err != nil {
						fail("Reader.Close returned %v", err)
					}
					prog = append(prog, "RClose")
					rclosed = true
				default:
					prog = append(prog, "GetRead")
				}
				if panicked {
					break
				}
				gr := rd.GetRead()
				if gr < lastR {
					fail("GetRead went from %d to %d", lastR, gr)
				}
				lastR = gr
			}
			if panicked {
				report(len(data))
				continue
			}
			if !isPrefix(got, data) {
				fail("bytes read are not a prefix of the bytes written")
			}
			if eof && !rclosed && !bytes.Equal(got, data) {
				fail("EOF after %d of %d bytes", len(got), len(data))
			}
			if len(data) == 0 && !rclosed {
				buf := make([]byte, 10)
				var k2 int
				var err error
				guard("Read(10)", func() { k2, err = rd.Read(buf) })
				if !panicked && (k2 != 0 || err != stdio.EOF) {
					fail("a writer closed without data must decode to empty: Read returned (%d, %v)", k2, err)
				}
			}
		}
		report(len(data))
	}
	c.Stats["distinct_nontrivial"] = nontrivial
}

func init() {
	commands["c08"] = runC08
	commands["c17"] = runC17
}
