package main

// fpm: entropy/FPAQCodec.go through its public API against the extracted Coq model Model/FPAQ.v
// (the arithmetic coder of Model/BinCoder.v with shifts 8/8 + the adaptive predictor + FPAQ's framing):
// stream bytes, decoded bytes and the sentinel that follows the block.

import (
	"bytes"
	"encoding/hex"
	"fmt"
	"strings"

	"github.com/flanglet/kanzi-go/v2/bitstream"
	"github.com/flanglet/kanzi-go/v2/entropy"
)

func init() { commands["fpm"] = runFpm }

func runFpm(c *Ctx, _ []string) {
	r := NewRng(c.Seed ^ 0xf9a0)
	cases := c.W("cases.txt")
	gout := c.W("go.txt")
	n := 160 * c.Scale
	nontrivial := 0
	const sentinel = 0xa5c3f00f
	shapes := []string{"text", "random", "runs", "skewed", "zeros", "dna"}
	for i := 0; i < n; i++ {
		ln := r.Range(0, 64)
		switch r.Intn(5) {
		case 0:
			ln = r.Range(64, 400)
		case 1:
			ln = r.Range(400, 1500)
		}
		shape := shapes[r.Intn(len(shapes))]
		data := genData(r, shape, ln)
		if len(data) > ln {
			data = data[:ln]
		}
		if r.Intn(6) == 0 { // extreme bytes: 0x00 / 0xFF patterns
			for k := range data {
				data[k] = []byte{0, 255, 0, 255, 128, 1}[r.Intn(6)]
			}
		}
		sink := &bufWC{}
		obs, _ := bitstream.NewDefaultOutputBitStream(sink, 16384)
		enc, _ := entropy.NewFPAQEncoder(obs)
		panicked := false
		func() {
			defer func() {
				if e := recover(); e != nil {
					panicked = true
				}
			}()
			enc.Write(data)
			enc.Dispose()
		}()
		out := strings.Builder{}
		streamHex := "-"
		if panicked {
			out.WriteString("E:P")
		} else {
			obs.WriteBits(sentinel, 32)
			obs.Close()
			all := sink.Bytes()
			body := all[:len(all)-4]
			if len(body) == 0 {
				out.WriteString("E:-")
			} else {
				out.WriteString("E:" + hex.EncodeToString(body))
				streamHex = hex.EncodeToString(body)
			}
			ibs, _ := bitstream.NewDefaultInputBitStream(bufRC{bytes.NewReader(all)}, 16384)
			ctx := map[string]any{"bsVersion": uint(6)}
			dec, _ := entropy.NewFPAQDecoderWithCtx(ibs, &ctx)
			got := make([]byte, len(data))
			var derr error
			dpanic := false
			var sent uint64
			func() {
				defer func() {
					if e := recover(); e != nil {
						dpanic = true
					}
				}()
				_, derr = dec.Read(got)
				dec.Dispose()
				sent = ibs.ReadBits(32)
			}()
			if dpanic || derr != nil || !bytes.Equal(got, data) || sent != sentinel {
				c.Violation(map[string]any{"what": "FPAQ round trip with sentinel failed", "len": len(data), "shape": shape, "panic": dpanic,
					"err": fmt.Sprint(derr), "sentinel": fmt.Sprintf("%x", sent), "data": hex.EncodeToString(data)})
			}
			if len(body) > 0 {
				if dpanic {
					out.WriteString(" D:eos")
				} else if derr != nil {
					out.WriteString(" D:invalid")
				} else {
					g := "-"
					if len(data) > 0 {
						g = hex.EncodeToString(got)
					}
					out.WriteString(fmt.Sprintf(" D:%s R:%08x", g, sent))
				}
			}
			if len(data) > 8 {
				nontrivial++
			}
		}
		dh := "-"
		if len(data) > 0 {
			dh = hex.EncodeToString(data)
		}
		fmt.Fprintf(cases, "fp %s ; %s\n", dh, streamHex)
		fmt.Fprintln(gout, out.String())
		c.Count("evaluations", 1)
		c.Hist("shape", shape)
		if panicked {
			c.Hist("outcome", "encoder_panic")
		} else {
			c.Hist("outcome", "ok")
		}
	}
	c.Stats["distinct_nontrivial"] = nontrivial
}
