package main

// sbm: transform/SBRT.go (MTFT, RANK, time stamp) against the extracted Coq model Model/SBRT.v:
// Forward on blocks of several shapes with destination buffers at, below and above MaxEncodedLen;
// Inverse on what Forward produced and on arbitrary rank strings, with exact-size, too small and
// larger destination buffers.  Case line: "sb <mode> <f|i> <cap> <cap2> ; <bytes>".

import (
	"fmt"
	"strings"

	"github.com/flanglet/kanzi-go/v2/transform"
)

func init() { commands["sbm"] = runSbm }

func runSbm(c *Ctx, _ []string) {
	r := NewRng(c.Seed ^ 0x5b27)
	cases := c.W("cases.txt")
	gout := c.W("go.txt")
	n := 700 * c.Scale
	nontrivial := 0
	call := func(f func([]byte, []byte) (uint, uint, error), src, dst []byte) (uint, error, bool) {
		var n uint
		var err error
		p := false
		func() {
			defer func() {
				if e := recover(); e != nil {
					p = true
				}
			}()
			_, n, err = f(src, dst)
		}()
		return n, err, p
	}
	for i := 0; i < n; i++ {
		mode := 1 + r.Intn(3)
		ln := r.Range(1, 40)
		if r.Intn(4) == 0 {
			ln = r.Range(40, 600)
		}
		src := genData(r, []string{"random", "text", "runs", "skewed", "zeros"}[r.Intn(5)], ln)
		if len(src) > ln {
			src = src[:ln]
		}
		ln = len(src)
		if r.Intn(5) == 0 { // few symbols, including 0 and 255
			for k := range src {
				src[k] = []byte{0, 255, 1, 254, 7}[r.Intn(5)]
			}
		}
		t, err := transform.NewSBRT(mode)
		if err != nil {
			continue
		}
		orig := append([]byte{}, src...)
		out := strings.Builder{}
		if r.Intn(4) != 0 {
			dcap := ln + 33 + r.Intn(3)
			if r.Intn(8) == 0 {
				dcap = r.Range(1, ln+32)
			}
			dcap2 := ln + r.Intn(3)
			if r.Intn(10) == 0 && ln > 1 {
				dcap2 = r.Range(1, ln-1)
			}
			dst := make([]byte, dcap)
			flen, ferr, fp := call(t.Forward, src, dst)
			if string(orig) != string(src) {
				c.Violation(map[string]any{"what": "SBRT.Forward modified its input", "src": bytesDec(orig)})
			}
			fmt.Fprintf(cases, "sb %d f %d %d ; %s\n", mode, dcap, dcap2, bytesDec(orig))
			switch {
			case fp:
				out.WriteString("F:panic")
			case ferr != nil:
				out.WriteString("F:err")
			default:
				out.WriteString("F:" + bytesDec(dst[:flen]))
				t2, _ := transform.NewSBRT(mode)
				dst2 := make([]byte, dcap2)
				ilen, ierr, ip := call(t2.Inverse, dst[:flen], dst2)
				if dcap2 >= ln && (ip || ierr != nil || string(dst2[:ilen]) != string(orig)) {
					c.Violation(map[string]any{"what": "SBRT: Inverse(Forward(x)) != x", "mode": mode, "src": bytesDec(orig), "panic": ip, "err": fmt.Sprint(ierr),
						"key": "impl:SBRT round trip"})
				}
				out.WriteString(" I:")
				switch {
				case ip:
					out.WriteString("panic")
				case ierr != nil:
					out.WriteString("err")
				default:
					out.WriteString(bytesDec(dst2[:ilen]))
				}
				if ln > 8 {
					nontrivial++
				}
			}
		} else { // Inverse on an arbitrary rank string
			dcap := ln + r.Intn(2)
			dst := make([]byte, dcap)
			ilen, ierr, ip := call(t.Inverse, src, dst)
			fmt.Fprintf(cases, "sb %d i %d 0 ; %s\n", mode, dcap, bytesDec(orig))
			switch {
			case ip:
				out.WriteString("I:panic")
			case ierr != nil:
				out.WriteString("I:err")
			default:
				out.WriteString("I:" + bytesDec(dst[:ilen]))
			}
		}
		fmt.Fprintln(gout, out.String())
		c.Count("evaluations", 1)
		c.Hist("mode", fmt.Sprint(mode))
	}
	c.Stats["distinct_nontrivial"] = nontrivial
}
