// kvh: correspondence / search harness for the kanzi-go verification (built from /repo's working tree).
package main

import (
	"bufio"
	"encoding/json"
	"flag"
	"fmt"
	"os"
	"path/filepath"
	"sort"
	"time"
)

// ---- deterministic PRNG (splitmix64): every random choice of a run derives from one seed ----
type Rng struct{ s uint64 }

func NewRng(seed uint64) *Rng { return &Rng{s: seed*0x9E3779B97F4A7C15 + 0x1234567} }
func (r *Rng) U64() uint64 {
	r.s += 0x9E3779B97F4A7C15
	z := r.s
	z = (z ^ (z >> 30)) * 0xBF58476D1CE4E5B9
	z = (z ^ (z >> 27)) * 0x94D049BB133111EB
	return z ^ (z >> 31)
}
func (r *Rng) Intn(n int) int {
	if n <= 0 {
		return 0
	}
	return int(r.U64() % uint64(n))
}
func (r *Rng) Range(lo, hi int) int { return lo + r.Intn(hi-lo+1) } // inclusive
func (r *Rng) Bool() bool           { return r.U64()&1 == 1 }
func (r *Rng) Pick(xs []int) int    { return xs[r.Intn(len(xs))] }

// ---- run context ----
type Ctx struct {
	Seed  uint64
	Tier  string
	Out   string
	Scale int // multiplier for case counts (1 quick)
	Stats map[string]any
	Viol  []map[string]any
	files map[string]*bufio.Writer
	fh    []*os.File
}

func (c *Ctx) W(name string) *bufio.Writer {
	if w, ok := c.files[name]; ok {
		return w
	}
	f, err := os.Create(filepath.Join(c.Out, name))
	if err != nil {
		panic(err)
	}
	w := bufio.NewWriterSize(f, 1<<20)
	c.files[name] = w
	c.fh = append(c.fh, f)
	return w
}
func (c *Ctx) Count(key string, n int) {
	v, _ := c.Stats[key].(int)
	c.Stats[key] = v + n
}
func (c *Ctx) Hist(key, bucket string) {
	m, ok := c.Stats[key].(map[string]int)
	if !ok {
		m = map[string]int{}
		c.Stats[key] = m
	}
	m[bucket]++
}
func (c *Ctx) Violation(v map[string]any) { c.Viol = append(c.Viol, v) }
func (c *Ctx) Close() {
	for _, w := range c.files {
		w.Flush()
	}
	for _, f := range c.fh {
		f.Close()
	}
	if c.Viol == nil {
		c.Viol = []map[string]any{}
	}
	c.Stats["violations"] = c.Viol
	b, _ := json.MarshalIndent(c.Stats, "", " ")
	os.WriteFile(filepath.Join(c.Out, "stats.json"), b, 0644)
}

var commands = map[string]func(*Ctx, []string){}

// Watchdog runs fn; if it does not return within d the run is a violation (hang): the
// evidence collected so far is written and the process exits at once (the stuck goroutines
// of the library would otherwise keep spinning).
func (c *Ctx) Watchdog(d time.Duration, desc map[string]any, fn func()) {
	done := make(chan bool, 1)
	go func() { fn(); done <- true }()
	select {
	case <-done:
	case <-time.After(d):
		v := map[string]any{"what": fmt.Sprintf("no answer within %v (hang)", d)}
		for k, x := range desc {
			v[k] = x
		}
		c.Violation(v)
		c.Stats["aborted_after_hang"] = true
		if _, ok := c.Stats["distinct_nontrivial"]; !ok {
			c.Stats["distinct_nontrivial"] = 0
		}
		c.Close()
		os.Exit(0)
	}
}

func main() {
	if len(os.Args) < 2 {
		names := []string{}
		for k := range commands {
			names = append(names, k)
		}
		sort.Strings(names)
		fmt.Println("usage: kvh <cmd> [-seed N] [-tier quick|thorough] [-out DIR] ...; cmds:", names)
		os.Exit(2)
	}
	cmd := os.Args[1]
	fn, ok := commands[cmd]
	if !ok {
		fmt.Println("unknown command", cmd)
		os.Exit(2)
	}
	fs := flag.NewFlagSet(cmd, flag.ExitOnError)
	seed := fs.Uint64("seed", 1, "seed")
	tier := fs.String("tier", "quick", "tier")
	out := fs.String("out", ".", "output dir")
	fs.Parse(os.Args[2:])
	os.MkdirAll(*out, 0755)
	c := &Ctx{Seed: *seed, Tier: *tier, Out: *out, Scale: 1, Stats: map[string]any{}, files: map[string]*bufio.Writer{}}
	if *tier == "thorough" {
		c.Scale = 20
	}
	fn(c, fs.Args())
	c.Close()
}
