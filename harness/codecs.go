package main

// C12: entropy codecs — exact inverse + bit-exact consumption (sentinel after the block).
// C13: transforms — exact inverse, output within the advertised size, clean decline.

import (
	"bytes"
	"fmt"
	"strings"
	"time"

	"github.com/flanglet/kanzi-go/v2/bitstream"
	"github.com/flanglet/kanzi-go/v2/entropy"
	"github.com/flanglet/kanzi-go/v2/transform"
)

func init() {
	commands["c12"] = runC12
	commands["c12scan"] = runC12Scan
	commands["c13"] = runC13
}

type bufWC struct{ bytes.Buffer }

func (b *bufWC) Close() error { return nil }

type bufRC struct{ *bytes.Reader }

func (b bufRC) Close() error { return nil }

var entropyTypes = map[string]uint32{"NONE": entropy.NONE_TYPE, "HUFFMAN": entropy.HUFFMAN_TYPE, "ANS0": entropy.ANS0_TYPE, "ANS1": entropy.ANS1_TYPE,
	"RANGE": entropy.RANGE_TYPE, "FPAQ": entropy.FPAQ_TYPE, "CM": entropy.CM_TYPE, "TPAQ": entropy.TPAQ_TYPE, "TPAQX": entropy.TPAQX_TYPE}

// one entropy round trip with a sentinel; returns "" or a description of the failure
func entropyRoundTrip(name string, block []byte, blockSize uint) (what string) {
	defer func() {
		if r := recover(); r != nil {
			what = fmt.Sprintf("panic: %v", r)
		}
	}()
	const sentinel = uint64(0xA5C3F00F12345678)
	const lead = uint64(0x2B) // a few bits before the block, so that the coder does not start aligned
	sink := &bufWC{}
	obs, _ := bitstream.NewDefaultOutputBitStream(sink, 16384)
	obs.WriteBits(lead, 7)
	ctx := map[string]any{"entropy": name, "blockSize": blockSize, "size": uint(len(block)), "bsVersion": uint(6), "jobs": uint(1)}
	ee, err := entropy.NewEntropyEncoder(obs, ctx, entropyTypes[name])
	if err != nil {
		return "encoder construction: " + err.Error()
	}
	if _, err := ee.Write(block); err != nil {
		return "encoder Write: " + err.Error()
	}
	ee.Dispose()
	mid := obs.Written()
	obs.WriteBits(sentinel, 64)
	obs.Close()
	ibs, _ := bitstream.NewDefaultInputBitStream(bufRC{bytes.NewReader(sink.Bytes())}, 16384)
	if ibs.ReadBits(7) != lead {
		return "lead bits"
	}
	ctx2 := map[string]any{"entropy": name, "blockSize": blockSize, "size": uint(len(block)), "bsVersion": uint(6), "jobs": uint(1)}
	ed, err := entropy.NewEntropyDecoder(ibs, ctx2, entropyTypes[name])
	if err != nil {
		return "decoder construction: " + err.Error()
	}
	out := make([]byte, len(block))
	if _, err := ed.Read(out); err != nil {
		return "decoder Read: " + err.Error()
	}
	ed.Dispose()
	if !bytes.Equal(out, block) {
		k := 0
		for k < len(out) && out[k] == block[k] {
			k++
		}
		return fmt.Sprintf("decoded bytes differ from the block at offset %d", k)
	}
	if ibs.Read() != mid {
		return fmt.Sprintf("decoder consumed %d bits, encoder wrote %d", ibs.Read(), mid)
	}
	if s := ibs.ReadBits(64); s != sentinel {
		return fmt.Sprintf("sentinel after the block read as %x", s)
	}
	return ""
}

func histBlock(r *Rng, n int, kind string) []byte {
	b := make([]byte, n)
	switch kind {
	case "rare+dominant": // k rare symbols + m dominant ones
		k := r.Range(1, 250)
		m := r.Range(1, 6)
		perm := permutation(r, 256)
		rareEvery := r.Range(2, 400)
		for i := range b {
			if i < k {
				b[i] = byte(perm[i]) // each rare symbol at least once
			} else if r.Intn(rareEvery) == 0 {
				b[i] = byte(perm[r.Intn(k)])
			} else {
				b[i] = byte(perm[k+r.Intn(m)%(256-k)])
			}
		}
		for i := len(b) - 1; i > 0; i-- { // shuffle
			j := r.Intn(i + 1)
			b[i], b[j] = b[j], b[i]
		}
	case "rare-quarter": // non-stationary: one quarter of every 16 KiB cycles through ~250 rare symbols, the rest uses a few dominant ones
		// (the coders that split a chunk into four fragments give that fragment the longest codes: it expands)
		k := r.Range(200, 250)
		m := r.Range(2, 5)
		perm := permutation(r, 256)
		q := r.Intn(4)
		for i := range b {
			if (i%16384)/4096 == q {
				b[i] = byte(perm[i%k])
			} else {
				b[i] = byte(perm[k+r.Intn(m)%(256-k)])
			}
		}
	case "singles+few": // many symbols occurring exactly once + 2..8 dominant ones: the scaled table overshoots by more than the number of symbols above 1
		k := r.Range(100, 254)
		if k > n-2 {
			k = n / 2
		}
		m := r.Range(2, 8)
		if k+m > 256 {
			m = 256 - k
		}
		perm := permutation(r, 256)
		for i := range b {
			if i < k {
				b[i] = byte(perm[i])
			} else {
				b[i] = byte(perm[k+(i%m)])
			}
		}
		for i := len(b) - 1; i > 0; i-- {
			j := r.Intn(i + 1)
			b[i], b[j] = b[j], b[i]
		}
	case "fibonacci": // code lengths that exceed the Huffman limit
		counts := []int{1, 1, 1, 1, 1, 1, 1, 2, 3, 4, 8, 13, 23, 38, 63, 105, 177, 298, 500, 807}
		pos := 0
		for s, cnt := range counts {
			for j := 0; j < cnt && pos < n; j++ {
				b[pos] = byte(s * 3)
				pos++
			}
		}
		for pos < n {
			b[pos] = byte(19 * 3)
			pos++
		}
		for i := len(b) - 1; i > 0; i-- {
			j := r.Intn(i + 1)
			b[i], b[j] = b[j], b[i]
		}
	case "flat":
		k := r.Range(1, 256)
		for i := range b {
			b[i] = byte(r.Intn(k))
		}
	case "single":
		c := byte(r.Intn(256))
		for i := range b {
			b[i] = c
		}
	case "geometric":
		for i := range b {
			v := 0
			for r.Intn(3) != 0 && v < 255 {
				v++
			}
			b[i] = byte(v)
		}
	case "250x3+6x708": // the histogram family that broke the unrepaired frequency scaling
		pos := 0
		for s := 0; s < 250 && pos < n; s++ {
			for j := 0; j < 3 && pos < n; j++ {
				b[pos] = byte(s)
				pos++
			}
		}
		for pos < n {
			b[pos] = byte(250 + r.Intn(6))
			pos++
		}
		for i := len(b) - 1; i > 0; i-- {
			j := r.Intn(i + 1)
			b[i], b[j] = b[j], b[i]
		}
	default:
		return genData(r, kind, n)
	}
	return b
}

func runC12(c *Ctx, _ []string) {
	r := NewRng(c.Seed ^ 0x1212)
	c.Stats["samples"] = []any{}
	nontrivial := 0
	seen := map[string]bool{}
	kinds := []string{"rare+dominant", "rare+dominant", "singles+few", "fibonacci", "flat", "single", "geometric", "250x3+6x708", "text", "random", "runs", "skewed", "dna"}
	try := func(name string, kind string, n int, dseed uint64) {
		block := histBlock(NewRng(dseed), n, kind)
		c.Count("evaluations", 1)
		c.Hist("codec", name)
		c.Hist("kind", kind)
		switch {
		case n == 0:
			c.Hist("length", "0")
		case n <= 32:
			c.Hist("length", "1..32")
		case n <= 16384:
			c.Hist("length", "<=16K")
		default:
			c.Hist("length", ">16K (several chunks)")
		}
		key := fmt.Sprintf("%s/%s/%d/%d", name, kind, n, dseed)
		if !seen[key] {
			seen[key] = true
			if n > 32 {
				nontrivial++
			}
		}
		var what string
		done := make(chan bool, 1)
		go func() { what = entropyRoundTrip(name, block, 1<<20); done <- true }()
		select {
		case <-done:
		case <-time.After(120 * time.Second):
			what = "no answer within 120 s"
		}
		if what != "" {
			c.Violation(map[string]any{"what": name + ": " + what, "codec": name, "kind": kind, "len": n, "dataseed": dseed,
				"key": "impl:" + name + ": " + strings.SplitN(what, " at offset", 2)[0]})
		}
		if len(c.Stats["samples"].([]any)) < 4 && r.Intn(60) == 0 {
			c.Stats["samples"] = append(c.Stats["samples"].([]any), map[string]any{"codec": name, "kind": kind, "len": n, "dataseed": dseed})
		}
	}
	lengths := func(name string) []int {
		ls := []int{0, 1, 2, 7, 15, 16, 31, 32, 33, 63, 64, 65, 100, 255, 256, 257, 300, 494, 700, 1000, 1023, 2047, 2048, 2049, 4096, 16383, 16384, 16385, 16384 + 2048, 32768, 32769, 40000, 65536, 65537, 70000}
		if name == "TPAQ" || name == "TPAQX" || name == "CM" {
			ls = []int{0, 1, 2, 15, 16, 33, 64, 100, 257, 1000, 2048, 4097, 16385, 20000}
		}
		return ls
	}
	for _, name := range entropyNames {
		ls := lengths(name)
		for _, n := range ls {
			k := kinds[r.Intn(len(kinds))]
			try(name, k, n, r.U64())
		}
		// a fragment of a chunk that expands while the chunk as a whole compresses (per-fragment output regions)
		for sd := uint64(0); sd < 4; sd++ {
			try(name, "rare-quarter", []int{16384, 32768, 50000, 16384 * 5}[sd], 200+sd)
		}
		// last chunk of 1..5 bytes behind whole chunks (ANS order 1: 4 MiB chunks, fixed defect at +2 / +3)
		if name == "ANS1" || name == "ANS0" {
			for _, extra := range []int{1, 2, 3, 4, 5} {
				try(name, "text", (4<<20)+extra, 300)
			}
		}
		// F10: Huffman chunk of exactly 2048 bytes with over-long codes
		try(name, "fibonacci", 2048, 1)
		try(name, "fibonacci", 16384+2048, 2)
		try(name, "250x3+6x708", 4998, 3)
		// scaled tables that overshoot by more than the number of symbols above 1 (small totals, many singles)
		if name == "RANGE" || name == "ANS0" || name == "ANS1" || name == "HUFFMAN" {
			for _, n := range []int{300, 494, 600, 800, 1023} {
				for sd := uint64(0); sd < 3; sd++ {
					try(name, "singles+few", n, 100+sd)
				}
			}
		}
		// inputs on which the range coder takes its carry-less underflow renormalisation (range <= 0xFFFF while the interval
		// straddles a 2^32 boundary; about once per MB of output), collected with c12scan
		if name == "RANGE" {
			for _, e := range []struct {
				k string
				n int
				s uint64
			}{{"runs", 20000, 1011}, {"geometric", 20000, 1026}, {"flat", 20000, 1043}, {"skewed", 20000, 1064}, {"geometric", 20000, 1085},
				{"runs", 20000, 1089}, {"runs", 20000, 1108}, {"dna", 20000, 1116}, {"skewed", 20000, 1119}, {"dna", 20000, 1133},
				{"runs", 20000, 1140}, {"flat", 20000, 1149}, {"flat", 60000, 1006}, {"random", 60000, 1009}, {"skewed", 60000, 1009}} {
				try(name, e.k, e.n, e.s)
			}
		}
		extra := 40 * c.Scale
		if name == "TPAQ" || name == "TPAQX" || name == "CM" {
			extra = 8 * c.Scale
		}
		for i := 0; i < extra; i++ {
			n := r.Intn(3000)
			switch r.Intn(4) {
			case 0:
				n = r.Range(16000, 17000)
			case 1:
				n = r.Range(1, 80)
			case 2:
				n = r.Range(30000, 70000)
				if name == "TPAQ" || name == "TPAQX" || name == "CM" {
					n = r.Range(3000, 9000)
				}
			}
			try(name, kinds[r.Intn(len(kinds))], n, r.U64())
		}
	}
	// beyond the 4 MiB chunk of FPAQ (context reset at each chunk start on both sides)
	try("FPAQ", "random", (4<<20)+1, 78)
	try("FPAQ", "text", (8<<20)+123, 79)
	if c.Scale > 1 {
		for _, name := range []string{"HUFFMAN", "ANS0", "ANS1", "RANGE", "NONE"} {
			try(name, "text", (4<<20)+12345, 77)
		}
	}
	c.Stats["distinct_nontrivial"] = nontrivial
}

// c12scan <codec> <len> <count>: prints the (kind, dataseed) pairs whose round trip fails; used with a seeded change
// applied to collect inputs that reach a rarely taken path (they are then pinned in runC12's corpus)
func runC12Scan(c *Ctx, args []string) {
	name := args[0]
	var n, cnt int
	fmt.Sscan(args[1], &n)
	fmt.Sscan(args[2], &cnt)
	kinds := []string{"random", "skewed", "text", "geometric", "flat", "dna", "runs"}
	for i := 0; i < cnt; i++ {
		for _, k := range kinds {
			ds := uint64(1000 + i)
			if what := entropyRoundTrip(name, histBlock(NewRng(ds), n, k), 1<<20); what != "" {
				fmt.Printf("FAIL %s %s %d %d: %.80s\n", name, k, n, ds, what)
			}
		}
	}
}

// ------------------------------------------------------------------ C13
func canaryBuf(n int) (buf []byte, check func() bool) {
	back := make([]byte, n+64)
	for i := n; i < n+64; i++ {
		back[i] = 0xC9
	}
	return back[:n:n], func() bool {
		for i := n; i < n+64; i++ {
			if back[i] != 0xC9 {
				return false
			}
		}
		return true
	}
}

func transformRoundTrip(name, entropyName string, block []byte, hint string) (what string, applied bool) {
	return transformRoundTripJobs(name, entropyName, block, hint, 1)
}

func transformRoundTripJobs(name, entropyName string, block []byte, hint string, jobs uint) (what string, applied bool) {
	defer func() {
		if r := recover(); r != nil {
			what = fmt.Sprintf("panic: %v", r)
		}
	}()
	n := len(block)
	bs := uint(1024)
	for int(bs) < n {
		bs += 1024
	}
	ctx := map[string]any{"transform": name, "entropy": entropyName, "blockSize": bs, "size": uint(n), "bsVersion": uint(6), "jobs": jobs}
	if hint != "" {
		transform.VerifSetDataType(ctx, hint)
	}
	packed, err := transform.GetType(name)
	if err != nil {
		return "GetType: " + err.Error(), false
	}
	t, err := transform.New(&ctx, packed)
	if err != nil {
		return "construction: " + err.Error(), false
	}
	maxLen := t.MaxEncodedLen(n)
	src := append([]byte{}, block...)
	dst, dstOK := canaryBuf(maxLen)
	_, oIdx, _ := t.Forward(src, dst)
	flags := t.SkipFlags()
	if !dstOK() {
		return fmt.Sprintf("forward wrote beyond the %d bytes it advertised (MaxEncodedLen)", maxLen), false
	}
	if int(oIdx) > maxLen {
		return fmt.Sprintf("forward reports %d bytes, more than MaxEncodedLen = %d", oIdx, maxLen), false
	}
	applied = flags&0x80 == 0
	if !applied {
		if !bytes.Equal(src, block) {
			return "the transform declined but modified its input", false
		}
		if int(oIdx) != n || !bytes.Equal(dst[:oIdx], block) {
			return "the transform declined but the chain output is not the untouched input", false
		}
	}
	// inverse, into buffers sized as decodingTask.decode sizes them
	blockLength := int(bs) + max(512, int(bs)>>4)
	inBuf := make([]byte, max(blockLength, int(oIdx)+512))
	copy(inBuf, dst[:oIdx])
	outBuf, outOK := canaryBuf(blockLength)
	ctx2 := map[string]any{"transform": name, "entropy": entropyName, "blockSize": bs, "size": uint(oIdx), "bsVersion": uint(6), "jobs": jobs}
	t2, err := transform.New(&ctx2, packed)
	if err != nil {
		return "construction (inverse side): " + err.Error(), applied
	}
	t2.SetSkipFlags(flags)
	_, rIdx, err := t2.Inverse(inBuf[:oIdx], outBuf)
	if !outOK() {
		return "inverse wrote beyond the buffer the decompressor provides", applied
	}
	if err != nil {
		return "inverse failed on the forward output: " + err.Error(), applied
	}
	if int(rIdx) != n || !bytes.Equal(outBuf[:rIdx], block) {
		return fmt.Sprintf("inverse(forward(block)) differs (%d bytes back, %d expected)", rIdx, n), applied
	}
	return "", applied
}

func runC13(c *Ctx, _ []string) {
	r := NewRng(c.Seed ^ 0x1313)
	c.Stats["samples"] = []any{}
	nontrivial := 0
	shapesFor := map[string][]string{"TEXT": {"text", "accent", "utf8", "b64", "crlf", "crlfcut", "crlflone", "crlfcut", "crlflone"}, "UTF": {"utf8", "text", "utf8bad", "utf8bad"}, "DNA": {"dna"}, "PACK": {"b64", "dna", "skewed", "runs"},
		"EXE": {"exe"}, "MM": {"mm"}, "ROLZX": {"dna", "text", "random", "exe", "mm"}, "ROLZ": {"dna", "text", "random", "exe", "mm"},
		"ZRLT": {"runs", "zeros"}, "RLT": {"runs", "zeros", "text", "runs+esc", "runs+esc"}, "BWT": {"text", "dna", "runs", "random"}, "BWTS": {"text", "runs"}}
	hints := []string{"", "", "", "", "", "", "", "", "", "TEXT", "DNA", "EXE", "MULTIMEDIA", "BIN", "UTF8", "BASE64", "NUMERIC", "SMALL_ALPHABET"}
	try := func(name, en, shape string, n int, hint string, dseed uint64) {
		block := mkData(shape, n, dseed)
		c.Count("evaluations", 1)
		c.Hist("transform", name)
		c.Hist("hint", hint)
		var what string
		var applied bool
		done := make(chan bool, 1)
		go func() { what, applied = transformRoundTrip(name, en, block, hint); done <- true }()
		select {
		case <-done:
		case <-time.After(180 * time.Second):
			what = "no answer within 180 s"
		}
		c.Hist("applied", fmt.Sprintf("%s:%v", name, applied))
		if applied && n > 64 {
			nontrivial++
		}
		if what != "" {
			short := what
			if i := strings.Index(short, "("); i > 0 {
				short = short[:i]
			}
			if i := strings.Index(short, ":"); i > 0 && strings.HasPrefix(short, "panic") {
				short = "panic"
			}
			c.Violation(map[string]any{"what": name + ": " + what, "transform": name, "entropy": en, "data": describe(shape, n, dseed), "hint": hint,
				"key": "impl:" + name + ": " + short})
		}
		if len(c.Stats["samples"].([]any)) < 4 && r.Intn(80) == 0 {
			c.Stats["samples"] = append(c.Stats["samples"].([]any), map[string]any{"transform": name, "entropy": en, "data": describe(shape, n, dseed), "hint": hint, "applied": applied})
		}
	}
	sizes := []int{1, 2, 3, 7, 8, 15, 16, 17, 31, 32, 33, 63, 64, 100, 255, 256, 257, 300, 511, 512, 513, 1000, 1024, 4095, 4096, 5000, 16383, 16384, 16385, 17000, 20000, 24000, 28000, 32768, 65536, 100000}
	for _, name := range transformNames {
		shapes := shapesFor[name]
		if shapes == nil {
			shapes = []string{"text", "skewed", "runs"}
		}
		shapes = append(shapes, "random")
		for _, n := range sizes {
			if c.Scale == 1 && r.Intn(2) == 0 && n > 600 {
				continue
			}
			sh := shapes[r.Intn(len(shapes))]
			en := []string{"NONE", "ANS0", "HUFFMAN", "FPAQ", "TPAQ", "TPAQX", "CM"}[r.Intn(7)]
			try(name, en, sh, n, hints[r.Intn(len(hints))], r.U64())
		}
		for i := 0; i < 14*c.Scale; i++ {
			sh := dataShapes[r.Intn(len(dataShapes))]
			if r.Bool() {
				sh = shapes[r.Intn(len(shapes))]
			}
			n := r.Range(1, 70000)
			if r.Intn(4) == 0 {
				n = r.Range(1, 600)
			}
			try(name, fastEntropy[r.Intn(len(fastEntropy))], sh, n, hints[r.Intn(len(hints))], r.U64())
		}
	}
	// blocks above the 4 MiB threshold of the parallel inverse BWT (8 chunks split among the jobs of the block), chunk sizes odd and even
	for i, n := range []int{4<<20 + 8, 5<<20 + 24, 5<<20 + 77} {
		for _, jobs := range []uint{1, 3, 5} {
			block := mkData("text", n, uint64(700+i))
			c.Count("evaluations", 1)
			c.Hist("transform", "BWT")
			what, _ := transformRoundTripJobs("BWT", "NONE", block, "", jobs)
			nontrivial++
			if what != "" {
				c.Violation(map[string]any{"what": fmt.Sprintf("BWT (jobs %d): %s", jobs, what), "transform": "BWT", "data": describe("text", n, uint64(700+i)), "jobs": jobs,
					"key": fmt.Sprintf("impl:BWT above 4 MiB: %s", strings.SplitN(what, "(", 2)[0])})
			}
		}
	}
	// one symbol occurring 2^21 times or more in a block (four-byte counts in the SRT header; long runs everywhere else)
	for _, name := range []string{"SRT", "RLT", "ZRLT", "RANK", "MTFT"} {
		for i, n := range []int{1<<21 - 1, 1 << 21, 1<<21 + 5, 3 << 20} {
			try(name, "NONE", "zeros", n, "", 800+uint64(i))
		}
	}
	// RLT with its default escape byte in the data (fast entropy codecs: the escape is 0xFB), also among the last bytes of the block
	for _, en := range []string{"NONE", "HUFFMAN", "ANS0", "RANGE"} {
		for _, n := range []int{64, 300, 2000, 20000} {
			for sd := uint64(0); sd < 4; sd++ {
				try("RLT", en, "runs+esc", n, "", 600+sd)
			}
		}
	}
	// almost valid UTF-8: a long sequence with an ASCII character in place of a continuation byte must be declined or restored exactly
	for _, n := range []int{2000, 12000, 40000} {
		for sd := uint64(0); sd < 6; sd++ {
			try("UTF", "NONE", "utf8bad", n, "", 500+sd)
		}
	}
	// boundaries of the run / literal length encodings: a literal run (or a run of one byte) of
	// exactly L bytes followed by something compressible, L swept around every threshold
	var sweep []int
	// DOS text cut by the block boundaries between CR and LF, or with a single lone LF (CRLF detection of TEXT)
	for _, en := range []string{"NONE", "HUFFMAN", "ANS1", "CM"} {
		for _, sh := range []string{"crlf", "crlfcut", "crlflone"} {
			for _, n := range []int{300, 4096, 20000} {
				for sd := uint64(0); sd < 2; sd++ {
					try("TEXT", en, sh, n, "", 500+sd)
				}
			}
		}
	}
	for k := 3; k <= 17; k++ {
		for d := -2; d <= 2; d++ {
			sweep = append(sweep, (1<<uint(k))+d)
		}
	}
	for d := -12; d <= 12; d++ {
		sweep = append(sweep, 65536+254+d, 254+d+16, 65536+d)
	}
	for _, name := range []string{"LZ", "LZX", "LZP", "ROLZ", "ROLZX", "RLT", "ZRLT"} {
		for _, L := range sweep {
			if c.Scale == 1 && L < 65000 && r.Intn(3) != 0 {
				continue
			}
			rr := NewRng(uint64(L) * 77)
			lit := make([]byte, L)
			for i := range lit {
				lit[i] = byte(1 + rr.Intn(255))
			}
			blockA := append(lit, make([]byte, 8192)...)                       // literal run then zeros
			blockB := append(bytes.Repeat([]byte{7}, L), lit[:min(L, 300)]...) // run then literals
			for bi, block := range [][]byte{blockA, blockB} {
				c.Count("evaluations", 1)
				c.Hist("transform", name)
				what, applied := transformRoundTrip(name, "NONE", block, "")
				c.Hist("applied", fmt.Sprintf("%s:%v", name, applied))
				if what != "" {
					c.Violation(map[string]any{"what": fmt.Sprintf("%s: %s", name, what), "transform": name,
						"data": fmt.Sprintf("length-boundary block kind %d with L=%d (seed L*77)", bi, L), "key": "impl:" + name + ": length boundary"})
				}
			}
		}
	}
	if c.Scale > 1 {
		// BWT below / above the 4 MiB threshold (different inverse algorithm), a few MiB for the LZ family
		for _, name := range []string{"BWT", "BWT", "LZ", "LZX", "ROLZ", "TEXT"} {
			try(name, "NONE", "text", (4<<20)+r.Range(1, 100000), "", r.U64())
		}
		try("BWT", "NONE", "text", (4<<20)-5, "", 3)
	}
	c.Stats["distinct_nontrivial"] = nontrivial
}
