package main

// C18: independent streams do not interfere; no data race. Meant to be run from the binary
// built with -race (kvh-race): K pipelines run concurrently FIRST (so that every first use of
// a package-level table happens concurrently), then each alone; outputs must be identical.
// Race reports come from the Go race detector on stderr (exit code 66).

import (
	"bytes"
	"fmt"
	stdio "io"
	"sync"
	"time"
)

func init() { commands["c18"] = runC18 }

type c18Pipe struct {
	cfg    sCfg
	shape  string
	size   int
	rjobs  uint
	listen bool
	stream []byte
	back   []byte
	err    string
}

func (p *c18Pipe) run(perturbSeed uint64) {
	data := mkData(p.shape, p.size, 99)
	stream, stage, err := compress(p.cfg, data, []int{1 + p.size/3})
	if err != nil {
		p.err = stage + ": " + err.Error()
		return
	}
	p.stream = stream
	var res readResult
	if p.listen {
		// with a block listener and verbose events (BLOCK_INFO carries stream offsets): whatever the tasks report must be
		// read under the hand-off protocol too
		ch := make(chan readResult, 1)
		go func() {
			rd, err := newReader(stdio.NopCloser(bytes.NewReader(stream)), p.cfg, p.rjobs, map[string]any{"verbosity": uint(5)})
			if err != nil {
				ch <- readResult{err: err}
				return
			}
			rd.AddListener(&evtListener{events: map[int][]int{}})
			ch <- readAll(rd, []int{50000}, 0, 0)
		}()
		select {
		case res = <-ch:
		case <-time.After(300 * time.Second):
			res = readResult{timeout: true}
		}
	} else {
		res = decompressTimed(stream, p.cfg, p.rjobs, []int{50000}, 0, nil, 300*time.Second)
	}
	if res.err != nil || res.panic != nil || res.timeout {
		p.err = fmt.Sprintf("decode: err=%v panic=%v timeout=%v", res.err, res.panic, res.timeout)
		return
	}
	p.back = res.data
	if !bytes.Equal(res.data, data) {
		p.err = "round trip mismatch"
	}
}

func runC18(c *Ctx, _ []string) {
	c.Stats["samples"] = []any{}
	mk := func() []*c18Pipe {
		ps := []*c18Pipe{
			{cfg: sCfg{"TEXT", "HUFFMAN", 16384, 3, 32, 0, false}, shape: "text", size: 120000, rjobs: 4},
			{cfg: sCfg{"TEXT", "ANS0", 16384, 2, 0, 0, false}, shape: "text", size: 100000, rjobs: 2},
			{cfg: sCfg{"TEXT+UTF+BWT+RANK+ZRLT", "ANS0", 65536, 4, 32, 0, false}, shape: "text", size: 300000, rjobs: 8},
			{cfg: sCfg{"TEXT+UTF+BWT+SRT+ZRLT", "FPAQ", 65536, 2, 64, 0, false}, shape: "utf8", size: 200000, rjobs: 3},
			{cfg: sCfg{"LZP+TEXT+UTF+BWT+LZP", "CM", 32768, 2, 0, 0, false}, shape: "text", size: 90000, rjobs: 2},
			{cfg: sCfg{"EXE+RLT+TEXT+UTF+DNA", "TPAQ", 32768, 2, 32, 0, false}, shape: "exe", size: 70000, rjobs: 2},
			{cfg: sCfg{"EXE+RLT+TEXT+UTF+DNA", "TPAQX", 32768, 2, 32, 0, false}, shape: "dna", size: 60000, rjobs: 5},
			{cfg: sCfg{"TEXT+UTF+EXE+PACK+MM+ROLZ", "NONE", 65536, 3, 0, 0, false}, shape: "mm", size: 250000, rjobs: 16},
			{cfg: sCfg{"TEXT+UTF+PACK+MM+LZX", "HUFFMAN", 65536, 4, 32, 0, false}, shape: "b64", size: 250000, rjobs: 4},
			{cfg: sCfg{"ROLZX", "RANGE", 65536, 2, 32, 0, false}, shape: "text", size: 150000, rjobs: 2},
			// almost valid UTF-8 next to valid UTF-8 (a block rejected late by one codec instance must leave nothing behind for another one)
			{cfg: sCfg{"NONE", "NONE", 4096, 4, 32, 0, false}, shape: "text", size: 120000, rjobs: 4, listen: true},
			{cfg: sCfg{"LZ", "HUFFMAN", 16384, 3, 0, 0, false}, shape: "text", size: 300000, rjobs: 8, listen: true},
			{cfg: sCfg{"UTF", "NONE", 65536, 2, 32, 0, false}, shape: "utf8bad", size: 200000, rjobs: 2},
			{cfg: sCfg{"UTF", "HUFFMAN", 65536, 3, 32, 0, false}, shape: "utf8", size: 200000, rjobs: 3},
			{cfg: sCfg{"TEXT+UTF", "NONE", 32768, 2, 0, 0, false}, shape: "utf8bad", size: 100000, rjobs: 1},
			{cfg: sCfg{"UTF", "ANS0", 16384, 4, 64, 0, false}, shape: "utf8", size: 150000, rjobs: 4},
			// blocks larger than the 256 KiB floor of the writer's input buffers, chains whose worst case exceeds the buffer
			// (the task enlarges its own input buffer), at least 3 blocks per batch
			{cfg: sCfg{"TEXT+UTF+EXE+PACK+MM+ROLZ", "NONE", 262144, 4, 32, 0, false}, shape: "mm", size: 1200000, rjobs: 4},
			{cfg: sCfg{"EXE+LZ", "HUFFMAN", 524288, 3, 32, 0, false}, shape: "exe", size: 1700000, rjobs: 3},
			{cfg: sCfg{"EXE+RLT+TEXT+UTF+DNA", "NONE", 262144, 3, 0, 1000000, false}, shape: "text", size: 1000000, rjobs: 2},
			{cfg: sCfg{"BWTS+MTFT", "ANS1", 16384, 5, 64, 0, false}, shape: "skewed", size: 100000, rjobs: 7},
			{cfg: sCfg{"TEXT", "NONE", 4096, 8, 32, 0, false}, shape: "accent", size: 60000, rjobs: 16},
			// one block above the 4 MiB threshold of the inverse BWT, decoded with more jobs than blocks
			{cfg: sCfg{"BWT", "NONE", 8 << 20, 1, 0, 5 << 20, false}, shape: "text", size: 5 << 20, rjobs: 4}, // size hint present: the single decoding task gets all 4 jobs
		}
		return ps
	}
	viol := func(f string, a ...any) { c.Violation(map[string]any{"what": fmt.Sprintf(f, a...)}) }
	undo := installPerturb(c.Seed)
	conc := mk()
	var wg sync.WaitGroup
	gate := make(chan bool)
	for _, p := range conc {
		wg.Add(1)
		go func(p *c18Pipe) { defer wg.Done(); <-gate; p.run(c.Seed) }(p)
	}
	close(gate) // release all pipelines at once
	wg.Wait()
	undo()
	alone := mk()
	for _, p := range alone {
		p.run(0)
	}
	nontrivial := 0
	for i := range conc {
		c.Count("evaluations", 2)
		a, b := conc[i], alone[i]
		nontrivial++
		switch {
		case a.err != "" || b.err != "":
			viol("pipeline %s: concurrent run: %q, isolated run: %q", a.cfg.String(), a.err, b.err)
		case !bytes.Equal(a.stream, b.stream):
			viol("pipeline %s: the stream produced while other pipelines run differs from the stream produced alone (%s vs %s)", a.cfg.String(), short(a.stream), short(b.stream))
		case !bytes.Equal(a.back, b.back):
			viol("pipeline %s: decoded bytes differ between the concurrent and the isolated run", a.cfg.String())
		}
	}
	// repeated rounds of concurrent runs with other seeds
	for round := 0; round < c.Scale; round++ {
		undo := installPerturb(c.Seed + uint64(round) + 1)
		ps := mk()
		var wg sync.WaitGroup
		for _, p := range ps[:len(ps)-1] {
			wg.Add(1)
			go func(p *c18Pipe) { defer wg.Done(); p.run(1) }(p)
		}
		wg.Wait()
		undo()
		for i, p := range ps[:len(ps)-1] {
			c.Count("evaluations", 1)
			if p.err != "" || !bytes.Equal(p.stream, alone[i].stream) {
				viol("pipeline %s (round %d): differs from the isolated run: %s", p.cfg.String(), round, p.err)
			}
		}
	}
	c.Stats["samples"] = []any{conc[0].cfg.String(), conc[2].cfg.String(), conc[12].cfg.String()}
	c.Stats["pipelines"] = len(conc)
	c.Stats["distinct_nontrivial"] = nontrivial
}
