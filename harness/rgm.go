package main

// rgm: entropy/RangeCodec.go through its public API against Model/RangeCodec.v (which sits on the models of
// NormalizeFrequencies, EncodeAlphabet/DecodeAlphabet and the bit streams): the bytes RangeEncoder.Write produces
// for a block (header: alphabet, log range, frequencies by chunks; then the 28-bit digits of the carry-less range
// coder), what RangeDecoder.Read returns on them, and on truncated copies.  Case lines: "rg <hex block>" and
// "rgd <n> <hex stream>".

import (
	"bytes"
	"encoding/hex"
	"fmt"

	"github.com/flanglet/kanzi-go/v2/bitstream"
	"github.com/flanglet/kanzi-go/v2/entropy"
)

func init() { commands["rgm"] = runRgm }

func rangeDecode(stream []byte, n int) string {
	res := ""
	func() {
		defer func() {
			if e := recover(); e != nil {
				res = "D:panic"
			}
		}()
		ibs, _ := bitstream.NewDefaultInputBitStream(bufRC{bytes.NewReader(stream)}, 1024)
		dec, err := entropy.NewRangeDecoder(ibs)
		if err != nil {
			res = "D:ctor"
			return
		}
		out := make([]byte, n)
		k, err := dec.Read(out)
		if err != nil {
			res = "D:invalid"
		} else {
			res = "D:" + hexOrDash(out[:k])
		}
	}()
	return res
}

func runRgm(c *Ctx, _ []string) {
	r := NewRng(c.Seed ^ 0x7a9e)
	cases := c.W("cases.txt")
	gout := c.W("go.txt")
	n := 110 * c.Scale
	nontrivial := 0
	for i := 0; i < n; i++ {
		ln := r.Range(1, 120)
		switch r.Intn(6) {
		case 0:
			ln = r.Range(120, 1500)
		case 1:
			ln = []int{255, 256, 257, 511, 512, 513, 1023, 1024, 1025, 2047, 2048, 2049}[r.Intn(12)]
		}
		if i%40 == 39 && c.Scale > 1 {
			ln = 32768 + r.Range(-2, 700) // crosses the 32 KiB chunk (thorough tier: the extracted model is slow on long blocks)
		}
		kinds := []string{"rare+dominant", "singles+few", "flat", "single", "geometric", "text", "random", "runs", "skewed", "dna"}
		block := histBlock(NewRng(r.U64()), ln, kinds[r.Intn(len(kinds))])
		sink := &bufWC{}
		obs, _ := bitstream.NewDefaultOutputBitStream(sink, 1024)
		res := ""
		func() {
			defer func() {
				if e := recover(); e != nil {
					res = "E:panic"
				}
			}()
			enc, err := entropy.NewRangeEncoder(obs)
			if err != nil {
				res = "E:ctor"
				return
			}
			if _, err := enc.Write(block); err != nil {
				res = "E:err"
				return
			}
			obs.Close()
			res = "E:" + hexOrDash(sink.Bytes())
		}()
		fmt.Fprintf(cases, "rg %s\n", hex.EncodeToString(block))
		c.Count("evaluations", 1)
		if len(res) > 2 && res[2] != 'p' && res != "E:err" && res != "E:ctor" {
			stream := append([]byte{}, sink.Bytes()...)
			d := rangeDecode(stream, len(block))
			if d != "D:"+hex.EncodeToString(block) {
				c.Violation(map[string]any{"what": "RANGE: decode(encode(block)) != block", "len": ln, "got": d[:min(len(d), 80)], "key": "impl:RANGE round trip"})
			}
			fmt.Fprintln(gout, res+" "+d)
			if ln > 32 {
				nontrivial++
			}
			// truncated copies
			for k := 0; k < 2 && len(stream) > 1; k++ {
				cut := r.Intn(len(stream))
				fmt.Fprintf(cases, "rgd %d %s\n", len(block), hexOrDash(stream[:cut]))
				fmt.Fprintln(gout, rangeDecode(stream[:cut], len(block)))
				c.Count("evaluations", 1)
			}
			continue
		}
		fmt.Fprintln(gout, res)
	}
	c.Stats["distinct_nontrivial"] = nontrivial
}
