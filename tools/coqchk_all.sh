#!/bin/bash
# Re-checks the whole compiled development with Coq's independent checker (coqchk), in one process, on a scratch copy
# (coqchk rewrites nothing, but the copy keeps a concurrent `make` of a check from changing files under it).
# Usage: tools/coqchk_all.sh [outfile]   - prints the context summary (axioms, type-in-type, unsafe fixpoints, positivity).
set -u
OUT=${1:-/dev/stdout}
SCR=$(mktemp -d /tmp/coqchk.XXXXXX)
trap 'rm -rf "$SCR"' EXIT
cp -r /verif/coq "$SCR/coq"
cd "$SCR/coq" || exit 2
mods=$(grep '\.v$' _CoqProject | sed 's#/#.#g; s#\.v$##; s#^#KV.#' | tr '\n' ' ')
ulimit -v 45000000
start=$(date +%s)
coqchk -silent -o -Q . KV $mods > "$SCR/out.txt" 2>&1
rc=$?
end=$(date +%s)
{ cat "$SCR/out.txt"; echo "coqchk rc=$rc modules=$(echo $mods | wc -w) seconds=$((end-start))"; } > "$OUT"
exit $rc
