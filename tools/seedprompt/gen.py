import json,sys,glob,os
pid, m = sys.argv[1], sys.argv[2]
props={json.loads(l)['id']:json.loads(l) for l in open('/verif/properties.jsonl')}
p=props[pid]
known=[]
for d in sorted(glob.glob('/verif/seeded/%s-m*'%pid)):
    try: known.append(json.load(open(d+'/meta.json'))['title'].split(':')[0][:160])
    except Exception as e: pass
t=open('/tmp/prompts/C06_m3.txt').read()
# rebuild from template
head=t.split('Property C06')[0]
tail=t.split('Requirements:')[1]
tail=tail.split('  2. With your change')[1]
body="Property %s: %s\nStatement: %s\nQuantified over: %s\n\n"%(pid,p['title'],p['statement'],p['quantifier']['text'])
setup="""Setup (do this first):
  export GOFLAGS=-mod=mod GOPROXY=off GOSUMDB=off GOTOOLCHAIN=local
  git -C /repo worktree add --detach /tmp/mut/C06m3 HEAD        # your private worktree: work ONLY in /tmp/mut/C06m3; never touch /repo or /verif
  The Go module is in /tmp/mut/C06m3/v2. Use the command `go1.26` (not `go`). There is no network.

Requirements:
  1. The change must be different in kind from these already-known ones (do not repeat them): %s
  2. With your change"""%(' | '.join(known))
out=(head+body+setup+tail).replace('C06m3',pid+m).replace('/C06/m3','/%s/%s'%(pid,m))
open('/tmp/prompts/%s_%s.txt'%(pid,m),'w').write(out)
print(out[:200])
