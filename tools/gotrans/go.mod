module gotrans

go 1.24
