// gotrans: regenerates coq/Gen/*.v from the current Go sources of kanzi-go (module dir given by
// -repo). Facts are extracted from the AST / type information of the non-test, non-verif files:
//
//	Consts.v    every package-level integer and string constant (library packages), static tables
//	Names.v     name <-> type tables of the codec factories, upper-casing facts, variant selection sites
//	Structure.v go statements and whether the spawned code recovers panics; writes to package-level
//	            variables outside init; receiver-field writes in the hashers
//	Levels.v    the CLI level table
//
// Files are rewritten only when their content changes.
package main

import (
	"crypto/sha256"
	"encoding/hex"
	"flag"
	"fmt"
	"go/ast"
	"go/constant"
	"go/importer"
	"go/parser"
	"go/token"
	"go/types"
	"math/big"
	"os"
	"path/filepath"
	"sort"
	"strings"
)

type pkgInfo struct {
	name   string
	dir    string
	files  []*ast.File
	fnames []string
	info   *types.Info
	pkg    *types.Package
}

var fset = token.NewFileSet()

func loadPkg(repo, rel string) *pkgInfo {
	dir := filepath.Join(repo, rel)
	ents, err := os.ReadDir(dir)
	if err != nil {
		return nil
	}
	p := &pkgInfo{name: rel, dir: dir}
	for _, e := range ents {
		n := e.Name()
		if e.IsDir() || !strings.HasSuffix(n, ".go") || strings.HasSuffix(n, "_test.go") {
			continue
		}
		src, _ := os.ReadFile(filepath.Join(dir, n))
		head := string(src)
		if len(head) > 400 {
			head = head[:400]
		}
		if strings.Contains(head, "//go:build verif") && !strings.Contains(head, "//go:build !verif") {
			continue // hook files only built with the verif tag
		}
		f, err := parser.ParseFile(fset, filepath.Join(dir, n), src, parser.ParseComments)
		if err != nil {
			fmt.Fprintln(os.Stderr, "parse error:", err)
			os.Exit(1)
		}
		p.files = append(p.files, f)
		p.fnames = append(p.fnames, n)
	}
	if len(p.files) == 0 {
		return nil
	}
	conf := types.Config{Importer: importer.ForCompiler(fset, "source", nil), Error: func(error) {}}
	p.info = &types.Info{Types: map[ast.Expr]types.TypeAndValue{}, Defs: map[*ast.Ident]types.Object{}, Uses: map[*ast.Ident]types.Object{}}
	p.pkg, _ = conf.Check("github.com/flanglet/kanzi-go/v2/"+rel, fset, p.files, p.info)
	return p
}

func coqString(s string) string {
	var sb strings.Builder
	sb.WriteByte('"')
	for _, r := range s {
		switch {
		case r == '"':
			sb.WriteString("\"\"")
		case r < 32 || r > 126:
			sb.WriteString(fmt.Sprintf("\\%03d", r))
		default:
			sb.WriteRune(r)
		}
	}
	sb.WriteByte('"')
	return sb.String()
}

func coqZ(v *big.Int) string {
	if v.Sign() < 0 {
		return "(" + v.String() + ")"
	}
	return v.String()
}

func writeIfChanged(path, content string) {
	old, err := os.ReadFile(path)
	if err == nil && string(old) == content {
		return
	}
	os.MkdirAll(filepath.Dir(path), 0755)
	if err := os.WriteFile(path, []byte(content), 0644); err != nil {
		fmt.Fprintln(os.Stderr, err)
		os.Exit(1)
	}
}

func pos(n ast.Node) string {
	p := fset.Position(n.Pos())
	return fmt.Sprintf("%s:%d", filepath.Base(filepath.Dir(p.Filename))+"/"+filepath.Base(p.Filename), p.Line)
}

func constInt(v constant.Value) (*big.Int, bool) {
	if v == nil || v.Kind() != constant.Int {
		return nil, false
	}
	b, ok := new(big.Int).SetString(v.ExactString(), 10)
	return b, ok
}

// ---------------------------------------------------------------- Consts.v
func genConsts(pkgs []*pkgInfo) string {
	var ints, strs, tabs []string
	for _, p := range pkgs {
		if p.pkg == nil {
			continue
		}
		scope := p.pkg.Scope()
		for _, n := range scope.Names() {
			if c, ok := scope.Lookup(n).(*types.Const); ok {
				q := p.name + "." + n
				switch c.Val().Kind() {
				case constant.Int:
					if b, ok := constInt(c.Val()); ok {
						ints = append(ints, fmt.Sprintf("  (%s, %s)", coqString(q), coqZ(b)))
					}
				case constant.String:
					s := constant.StringVal(c.Val())
					if len(s) > 60 {
						h := sha256.Sum256([]byte(s))
						s = fmt.Sprintf("sha256:%s:len=%d", hex.EncodeToString(h[:16]), len(s))
					}
					strs = append(strs, fmt.Sprintf("  (%s, %s)", coqString(q), coqString(s)))
				}
			}
		}
		// static tables: package-level vars initialised by a composite literal of constants
		for _, f := range p.files {
			for _, d := range f.Decls {
				gd, ok := d.(*ast.GenDecl)
				if !ok || gd.Tok != token.VAR {
					continue
				}
				for _, sp := range gd.Specs {
					vs := sp.(*ast.ValueSpec)
					for i, nm := range vs.Names {
						if i >= len(vs.Values) {
							continue
						}
						cl, ok := vs.Values[i].(*ast.CompositeLit)
						if !ok {
							continue
						}
						h := big.NewInt(7)
						mod := new(big.Int).Sub(new(big.Int).Lsh(big.NewInt(1), 61), big.NewInt(1))
						count := 0
						okAll := true
						var walk func(e ast.Expr)
						walk = func(e ast.Expr) {
							if c2, ok := e.(*ast.CompositeLit); ok {
								for _, el := range c2.Elts {
									if kv, ok := el.(*ast.KeyValueExpr); ok {
										walk(kv.Key)
										walk(kv.Value)
									} else {
										walk(el)
									}
								}
								return
							}
							tv, ok := p.info.Types[e]
							if !ok || tv.Value == nil {
								okAll = false
								return
							}
							var b *big.Int
							switch tv.Value.Kind() {
							case constant.Int:
								b, _ = constInt(tv.Value)
							case constant.String:
								sum := sha256.Sum256([]byte(constant.StringVal(tv.Value)))
								b = new(big.Int).SetBytes(sum[:7])
							default:
								okAll = false
								return
							}
							h.Mul(h, big.NewInt(1000003))
							h.Add(h, b)
							h.Mod(h, mod)
							count++
						}
						walk(cl)
						if okAll && count > 0 {
							tabs = append(tabs, fmt.Sprintf("  (%s, (%d, %s))", coqString(p.name+"."+nm.Name), count, h.String()))
						}
					}
				}
			}
		}
	}
	sort.Strings(ints)
	sort.Strings(strs)
	sort.Strings(tabs)
	var sb strings.Builder
	sb.WriteString("(* GENERATED by tools/gotrans from the Go sources - do not edit *)\nFrom Coq Require Import List ZArith String.\nImport ListNotations.\nOpen Scope Z_scope.\nOpen Scope string_scope.\n\n")
	sb.WriteString("Definition int_consts : list (string * Z) := [\n" + strings.Join(ints, ";\n") + "\n].\n\n")
	sb.WriteString("Definition string_consts : list (string * string) := [\n" + strings.Join(strs, ";\n") + "\n].\n\n")
	sb.WriteString("(* static tables: (name, (number of constant elements, polynomial hash of the elements)) *)\nDefinition tables : list (string * (Z * Z)) := [\n" + strings.Join(tabs, ";\n") + "\n].\n")
	return sb.String()
}

// ---------------------------------------------------------------- Names.v
func funcDecls(p *pkgInfo) map[string]*ast.FuncDecl {
	m := map[string]*ast.FuncDecl{}
	for _, f := range p.files {
		for _, d := range f.Decls {
			if fd, ok := d.(*ast.FuncDecl); ok && fd.Body != nil {
				key := fd.Name.Name
				if fd.Recv != nil && len(fd.Recv.List) > 0 {
					t := fd.Recv.List[0].Type
					if st, ok := t.(*ast.StarExpr); ok {
						t = st.X
					}
					if id, ok := t.(*ast.Ident); ok {
						key = id.Name + "." + key
					}
				}
				m[key] = fd
			}
		}
	}
	return m
}

func isToUpperCall(e ast.Expr) bool {
	c, ok := e.(*ast.CallExpr)
	if !ok {
		return false
	}
	sel, ok := c.Fun.(*ast.SelectorExpr)
	if !ok {
		return false
	}
	x, ok := sel.X.(*ast.Ident)
	return ok && x.Name == "strings" && sel.Sel.Name == "ToUpper"
}

// identifiers of a function that only ever receive strings.ToUpper(...) values
func upperIdents(fd *ast.FuncDecl) map[string]bool {
	res := map[string]bool{}
	bad := map[string]bool{}
	ast.Inspect(fd.Body, func(n ast.Node) bool {
		as, ok := n.(*ast.AssignStmt)
		if !ok {
			return true
		}
		for i, l := range as.Lhs {
			id, ok := l.(*ast.Ident)
			if !ok || i >= len(as.Rhs) {
				continue
			}
			if isToUpperCall(as.Rhs[i]) {
				res[id.Name] = true
			} else if len(as.Lhs) == len(as.Rhs) {
				bad[id.Name] = true
			} else {
				bad[id.Name] = true
			}
		}
		return true
	})
	for k := range bad {
		// a variable first bound to a raw value and later overwritten by its upper-cased form
		// (name = strings.ToUpper(name)) is only safe after that statement; keep it only when the
		// raw binding is the parameter itself (no entry in bad) — conservative otherwise
		if res[k] {
			// allowed pattern: x = strings.ToUpper(x) as the only re-assignment besides declaration
			delete(bad, k)
		}
	}
	return res
}

var codecNames = map[string]bool{"NONE": true, "HUFFMAN": true, "ANS0": true, "ANS1": true, "RANGE": true, "FPAQ": true, "CM": true, "TPAQ": true, "TPAQX": true,
	"TEXT": true, "BWT": true, "BWTS": true, "ROLZ": true, "ROLZX": true, "LZ": true, "LZX": true, "LZP": true, "UTF": true, "MM": true, "SRT": true, "RANK": true,
	"MTFT": true, "ZRLT": true, "RLT": true, "EXE": true, "PACK": true, "DNA": true}

func genNames(pkgs map[string]*pkgInfo) string {
	var sb strings.Builder
	sb.WriteString("(* GENERATED by tools/gotrans from the Go sources - do not edit *)\nFrom Coq Require Import List ZArith String Bool.\nImport ListNotations.\nOpen Scope Z_scope.\nOpen Scope string_scope.\n\n")
	var sites []string
	for _, pn := range []string{"transform", "entropy"} {
		p := pkgs[pn]
		if p == nil {
			continue
		}
		n2t := []string{}
		t2n := []string{}
		upper := true
		sawN2T := false
		for key, fd := range funcDecls(p) {
			ups := upperIdents(fd)
			ast.Inspect(fd.Body, func(n ast.Node) bool {
				sw, ok := n.(*ast.SwitchStmt)
				if !ok || sw.Tag == nil {
					return true
				}
				var n2, t2 []string
				for _, cc := range sw.Body.List {
					clause := cc.(*ast.CaseClause)
					var ret *ast.ReturnStmt
					for _, st := range clause.Body {
						if r, ok := st.(*ast.ReturnStmt); ok {
							ret = r
						}
					}
					if ret == nil || len(ret.Results) == 0 {
						continue
					}
					for _, ce := range clause.List {
						ctv := p.info.Types[ce]
						rtv := p.info.Types[ret.Results[0]]
						if ctv.Value == nil || rtv.Value == nil {
							continue
						}
						if ctv.Value.Kind() == constant.String && rtv.Value.Kind() == constant.Int {
							b, _ := constInt(rtv.Value)
							n2 = append(n2, fmt.Sprintf("  (%s, %s)", coqString(constant.StringVal(ctv.Value)), coqZ(b)))
						}
						if ctv.Value.Kind() == constant.Int && rtv.Value.Kind() == constant.String {
							b, _ := constInt(ctv.Value)
							t2 = append(t2, fmt.Sprintf("  (%s, %s)", coqZ(b), coqString(constant.StringVal(rtv.Value))))
						}
					}
				}
				if len(n2) >= 5 {
					sawN2T = true
					n2t = append(n2t, n2...)
					// is the switch tag upper-cased?
					tagUp := isToUpperCall(sw.Tag)
					if id, ok := sw.Tag.(*ast.Ident); ok && ups[id.Name] {
						tagUp = true
					}
					if !tagUp {
						upper = false
					}
					_ = key
				}
				if len(t2) >= 5 {
					t2n = append(t2n, t2...)
				}
				return true
			})
			// variant selection sites: comparisons of a context string with a codec name literal
			if key == "GetType" || key == "GetName" || strings.HasPrefix(key, "getByteFunction") || key == "getType" || key == "getName" {
				continue
			}
			ast.Inspect(fd.Body, func(n ast.Node) bool {
				check := func(lit *ast.BasicLit, other ast.Expr, how string) {
					if lit.Kind != token.STRING {
						return
					}
					s := strings.Trim(lit.Value, "\"")
					if !codecNames[s] {
						return
					}
					up := isToUpperCall(other)
					if id, ok := other.(*ast.Ident); ok && ups[id.Name] {
						up = true
					}
					sites = append(sites, fmt.Sprintf("  (%s, (%s, %v))", coqString(pn+"."+key+":"+how), coqString(s), up))
				}
				switch e := n.(type) {
				case *ast.BinaryExpr:
					if e.Op == token.EQL || e.Op == token.NEQ {
						if l, ok := e.X.(*ast.BasicLit); ok {
							check(l, e.Y, "==")
						}
						if l, ok := e.Y.(*ast.BasicLit); ok {
							check(l, e.X, "==")
						}
					}
				case *ast.CallExpr:
					if sel, ok := e.Fun.(*ast.SelectorExpr); ok {
						if x, ok := sel.X.(*ast.Ident); ok && x.Name == "strings" && (sel.Sel.Name == "Contains" || sel.Sel.Name == "HasPrefix" || sel.Sel.Name == "EqualFold") && len(e.Args) == 2 {
							if l, ok := e.Args[1].(*ast.BasicLit); ok {
								if sel.Sel.Name == "EqualFold" {
									if s := strings.Trim(l.Value, "\""); codecNames[s] {
										sites = append(sites, fmt.Sprintf("  (%s, (%s, true))", coqString(pn+"."+key+":EqualFold"), coqString(s)))
									}
								} else {
									check(l, e.Args[0], sel.Sel.Name)
								}
							}
						}
					}
				}
				return true
			})
		}
		sort.Strings(n2t)
		sort.Strings(t2n)
		n2t = uniq(n2t)
		t2n = uniq(t2n)
		sb.WriteString(fmt.Sprintf("Definition %s_type_of_name : list (string * Z) := [\n%s\n].\n\n", pn, strings.Join(n2t, ";\n")))
		sb.WriteString(fmt.Sprintf("Definition %s_name_of_type : list (Z * string) := [\n%s\n].\n\n", pn, strings.Join(t2n, ";\n")))
		sb.WriteString(fmt.Sprintf("(* the name lookup upper-cases its argument before the table switch *)\nDefinition %s_lookup_uppercases : bool := %v.\n\n", pn, upper && sawN2T))
	}
	sort.Strings(sites)
	sites = uniq(sites)
	sb.WriteString("(* places where a codec variant is selected by comparing a context string with a name:\n   (function:operator, (literal, operand is upper-cased before the comparison)) *)\nDefinition variant_sites : list (string * (string * bool)) := [\n" + strings.Join(sites, ";\n") + "\n].\n")
	return sb.String()
}

func uniq(l []string) []string {
	out := []string{}
	for i, s := range l {
		if i == 0 || s != l[i-1] {
			out = append(out, s)
		}
	}
	return out
}

// ---------------------------------------------------------------- Structure.v
func hasRecover(body *ast.BlockStmt) bool {
	if body == nil {
		return false
	}
	found := false
	for _, st := range body.List {
		ds, ok := st.(*ast.DeferStmt)
		if !ok {
			continue
		}
		ast.Inspect(ds.Call, func(n ast.Node) bool {
			if c, ok := n.(*ast.CallExpr); ok {
				if id, ok := c.Fun.(*ast.Ident); ok && id.Name == "recover" {
					found = true
				}
			}
			return true
		})
	}
	return found
}

func genStructure(pkgs map[string]*pkgInfo, lib []string) string {
	var spawns, appSpawns, writes, hashw []string
	nvars := 0
	for name, p := range pkgs {
		isLib := false
		for _, l := range lib {
			if l == name {
				isLib = true
			}
		}
		decls := funcDecls(p)
		for key, fd := range decls {
			ast.Inspect(fd.Body, func(n ast.Node) bool {
				gs, ok := n.(*ast.GoStmt)
				if !ok {
					return true
				}
				guarded := false
				callee := "?"
				switch f := gs.Call.Fun.(type) {
				case *ast.FuncLit:
					callee = "func literal"
					guarded = hasRecover(f.Body)
				case *ast.Ident:
					callee = f.Name
					if d, ok := decls[f.Name]; ok {
						guarded = hasRecover(d.Body)
					}
				case *ast.SelectorExpr:
					callee = f.Sel.Name
					for k, d := range decls {
						if strings.HasSuffix(k, "."+f.Sel.Name) {
							guarded = hasRecover(d.Body)
						}
					}
				}
				entry := fmt.Sprintf("  (%s, %v)", coqString(name+"."+key+" -> "+callee), guarded)
				if isLib {
					spawns = append(spawns, entry)
				} else {
					appSpawns = append(appSpawns, entry)
				}
				return true
			})
		}
		if !isLib || p.pkg == nil {
			continue
		}
		// package-level variables and writes to them outside init / their own initialiser
		pkgVars := map[types.Object]string{}
		for _, n := range p.pkg.Scope().Names() {
			if v, ok := p.pkg.Scope().Lookup(n).(*types.Var); ok {
				pkgVars[v] = n
				nvars++
			}
		}
		rootIdent := func(e ast.Expr) *ast.Ident {
			for {
				switch x := e.(type) {
				case *ast.Ident:
					return x
				case *ast.IndexExpr:
					e = x.X
				case *ast.SelectorExpr:
					e = x.X
				case *ast.StarExpr:
					e = x.X
				case *ast.ParenExpr:
					e = x.X
				case *ast.SliceExpr:
					e = x.X
				default:
					return nil
				}
			}
		}
		for key, fd := range decls {
			if fd.Name.Name == "init" && fd.Recv == nil {
				continue
			}
			ast.Inspect(fd.Body, func(n ast.Node) bool {
				var lhs []ast.Expr
				switch s := n.(type) {
				case *ast.AssignStmt:
					if s.Tok != token.DEFINE {
						lhs = s.Lhs
					}
				case *ast.IncDecStmt:
					lhs = []ast.Expr{s.X}
				}
				for _, l := range lhs {
					if id := rootIdent(l); id != nil {
						if obj := p.info.Uses[id]; obj != nil {
							if vn, ok := pkgVars[obj]; ok {
								writes = append(writes, fmt.Sprintf("  %s", coqString(name+"."+vn+" written in "+key)))
							}
						}
					}
				}
				return true
			})
			// hashers: Hash must not write receiver fields
			if name == "hash" && strings.HasSuffix(key, ".Hash") && fd.Recv != nil && len(fd.Recv.List[0].Names) > 0 {
				recv := fd.Recv.List[0].Names[0].Name
				ast.Inspect(fd.Body, func(n ast.Node) bool {
					if as, ok := n.(*ast.AssignStmt); ok {
						for _, l := range as.Lhs {
							if id := rootIdent(l); id != nil && id.Name == recv {
								if _, isIdent := l.(*ast.Ident); !isIdent {
									hashw = append(hashw, fmt.Sprintf("  %s", coqString(key+" writes "+recv+"'s state at "+pos(as))))
								}
							}
						}
					}
					return true
				})
			}
		}
	}
	sort.Strings(spawns)
	sort.Strings(appSpawns)
	sort.Strings(writes)
	writes = uniq(writes)
	sort.Strings(hashw)
	var sb strings.Builder
	sb.WriteString("(* GENERATED by tools/gotrans from the Go sources - do not edit *)\nFrom Coq Require Import List ZArith String Bool.\nImport ListNotations.\nOpen Scope string_scope.\n\n")
	sb.WriteString("(* every go statement of the library packages: (where -> callee, the spawned code has a deferred recover) *)\nDefinition lib_spawns : list (string * bool) := [\n" + strings.Join(spawns, ";\n") + "\n].\n\n")
	sb.WriteString("(* go statements of the command-line application (informational) *)\nDefinition app_spawns : list (string * bool) := [\n" + strings.Join(appSpawns, ";\n") + "\n].\n\n")
	sb.WriteString(fmt.Sprintf("Definition lib_package_vars : nat := %d.\n\n", nvars))
	sb.WriteString("(* assignments to package-level variables of the library outside init functions *)\nDefinition shared_var_writes : list string := [\n" + strings.Join(writes, ";\n") + "\n].\n\n")
	sb.WriteString("(* receiver state written by the Hash methods *)\nDefinition hasher_state_writes : list string := [\n" + strings.Join(hashw, ";\n") + "\n].\n")
	return sb.String()
}

// ---------------------------------------------------------------- Levels.v
func genLevels(app *pkgInfo) string {
	var rows []string
	if app != nil {
		if fd, ok := funcDecls(app)["getTransformAndCodec"]; ok {
			ast.Inspect(fd.Body, func(n ast.Node) bool {
				cc, ok := n.(*ast.CaseClause)
				if !ok || len(cc.List) != 1 {
					return true
				}
				lv, ok1 := cc.List[0].(*ast.BasicLit)
				if !ok1 || lv.Kind != token.INT {
					return true
				}
				for _, st := range cc.Body {
					if r, ok := st.(*ast.ReturnStmt); ok && len(r.Results) == 1 {
						if s, ok := r.Results[0].(*ast.BasicLit); ok && s.Kind == token.STRING {
							v := strings.Trim(s.Value, "\"")
							parts := strings.SplitN(v, "&", 2)
							if len(parts) == 2 {
								rows = append(rows, fmt.Sprintf("  (%s, (%s, %s))", lv.Value, coqString(parts[0]), coqString(parts[1])))
							}
						}
					}
				}
				return true
			})
		}
	}
	sort.Strings(rows)
	return "(* GENERATED by tools/gotrans from the Go sources - do not edit *)\nFrom Coq Require Import List ZArith String.\nImport ListNotations.\nOpen Scope Z_scope.\nOpen Scope string_scope.\n\n" +
		"(* level -> (transform chain, entropy codec) of getTransformAndCodec *)\nDefinition levels : list (Z * (string * string)) := [\n" + strings.Join(rows, ";\n") + "\n].\n"
}

func main() {
	repo := flag.String("repo", "/repo/v2", "module directory")
	out := flag.String("out", "/verif/coq/Gen", "output directory")
	flag.Parse()
	lib := []string{"io", "bitstream", "entropy", "transform", "hash", "internal"}
	pkgs := map[string]*pkgInfo{}
	var libPkgs []*pkgInfo
	for _, n := range append(append([]string{}, lib...), "app") {
		p := loadPkg(*repo, n)
		if p == nil {
			if n == "app" {
				continue // reference snapshots are vendored without the application
			}
			fmt.Fprintln(os.Stderr, "cannot load package", n)
			os.Exit(1)
		}
		pkgs[n] = p
		if n != "app" {
			libPkgs = append(libPkgs, p)
		}
	}
	writeIfChanged(filepath.Join(*out, "Consts.v"), genConsts(libPkgs))
	writeIfChanged(filepath.Join(*out, "Names.v"), genNames(pkgs))
	writeIfChanged(filepath.Join(*out, "Structure.v"), genStructure(pkgs, lib))
	writeIfChanged(filepath.Join(*out, "Levels.v"), genLevels(pkgs["app"]))
}
