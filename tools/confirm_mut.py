#!/usr/bin/env python3
"""confirm_mut.py <ID> <m> : confirm a seeded change delivered under /tmp/mut_out/<ID>/<m>/ in a scratch
worktree (/tmp/mut/<ID>): the demo passes without the change; with it the tree builds, the whole existing
suite passes and the demo fails.  On success copies it to /verif/seeded/<ID>-<m>/ (patch.diff, demo, meta.json
extended with what was run).  Then, unless --no-check, applies the patch to /repo, runs ./check <ID> (and any
extra ids given with --also), reverts /repo, and records the verdicts in meta.json."""
import json, os, re, shutil, subprocess, sys, glob, time

ENV = dict(os.environ, GOFLAGS="-mod=mod", GOPROXY="off", GOSUMDB="off", GOTOOLCHAIN="local")

def sh(cmd, cwd=None, timeout=1200):
    try:
        p = subprocess.run(cmd, shell=True, cwd=cwd, env=ENV, timeout=timeout, stdout=subprocess.PIPE,
                           stderr=subprocess.STDOUT, text=True, errors="replace")
        return p.returncode, p.stdout
    except subprocess.TimeoutExpired as e:
        return 124, "[timeout]"

def demo_cmd(src, tree):
    """returns (setup_fn, command, cwd)"""
    demo = os.path.join(src, "demo")
    readme = ""
    for n in ("README.txt", "README.md", "README"):
        if os.path.exists(os.path.join(demo, n)):
            readme = open(os.path.join(demo, n)).read()
    tests = glob.glob(os.path.join(demo, "*_test.go"))
    if os.path.exists(os.path.join(demo, "run.sh")):
        return (lambda: None), "bash run.sh %s" % tree, demo
    if os.path.exists(os.path.join(demo, "go.mod")):
        gm = open(os.path.join(demo, "go.mod")).read()
        gm = re.sub(r"=>\s*\S+", "=> %s/v2" % tree, gm)
        open(os.path.join(demo, "go.mod"), "w").write(gm)
        if os.path.exists(os.path.join(tree, "v2", "go.sum")):
            shutil.copy(os.path.join(tree, "v2", "go.sum"), os.path.join(demo, "go.sum"))
        if tests:
            return (lambda: None), "go1.26 test -vet=off -count=1 ./...", demo
        m = re.search(r"go1\.26 run ([^\n#]*)", readme)
        args = m.group(1).strip() if m else "."
        if "$" in args or "/tmp" in args:
            args = "."
        return (lambda: None), "go1.26 run " + args, demo
    if tests:
        # test files to drop into a package directory
        m = re.search(r"v2/([a-z]+)/?\s*$", "\n".join(l for l in readme.split("\n") if l.strip().startswith("cp ")), re.M)
        pkg = m.group(1) if m else None
        if not pkg:
            m = re.search(r"go1\.26 test[^\n]*\./([a-z]+)", readme)
            pkg = m.group(1) if m else "io"
        m = re.search(r"-run\s+'?\"?([^'\"\s]+)", readme)
        runpat = m.group(1) if m else "."
        def setup():
            for t in tests:
                shutil.copy(t, os.path.join(tree, "v2", pkg))
        return setup, "go1.26 test -vet=off -count=1 -run '%s' ./%s/" % (runpat, pkg), os.path.join(tree, "v2")
    raise RuntimeError("cannot work out how to run the demo in " + demo)

def main():
    pid, m = sys.argv[1], sys.argv[2]
    also = []
    nocheck = "--no-check" in sys.argv
    if "--also" in sys.argv:
        also = sys.argv[sys.argv.index("--also") + 1].split(",")
    src = "/tmp/mut_out/%s/%s" % (pid, m)
    dst = "/verif/seeded/%s-%s" % (pid, m)
    if not os.path.exists(src) and os.path.exists(dst):
        src = dst
    tree = "/tmp/mut/%s" % pid
    sh("git -C /repo worktree remove --force %s" % tree)
    shutil.rmtree(tree, ignore_errors=True)
    rc, out = sh("git -C /repo worktree add --detach %s HEAD" % tree)
    assert rc == 0, out
    log = {}
    try:
        patch = os.path.join(src, "patch.diff")
        setup, cmd, cwd = demo_cmd(src, tree)
        setup()
        rc0, out0 = sh("timeout 600 " + cmd, cwd=cwd, timeout=700)
        log["demo_without"] = dict(cmd=cmd, rc=rc0, tail=out0[-600:])
        rc, out = sh("git -C %s apply %s" % (tree, patch))
        log["apply"] = dict(rc=rc, out=out[-300:])
        if rc != 0:
            print("PATCH DOES NOT APPLY", out); return 1
        # suite first (without demo test files interfering): stash demo tests
        dropped = [f for f in glob.glob(os.path.join(tree, "v2", "*", "*_test.go"))
                   if os.path.basename(f) in [os.path.basename(t) for t in glob.glob(os.path.join(src, "demo", "*_test.go"))]]
        for f in dropped:
            os.rename(f, f + ".off")
        rcb, outb = sh("go1.26 build ./... && go1.26 test -vet=off -count=1 ./...", cwd=os.path.join(tree, "v2"), timeout=1500)
        log["suite_with"] = dict(rc=rcb, tail=outb[-800:])
        for f in dropped:
            os.rename(f + ".off", f)
        rc1, out1 = sh("timeout 600 " + cmd, cwd=cwd, timeout=700)
        log["demo_with"] = dict(cmd=cmd, rc=rc1, tail=out1[-600:])
        ok = (rc0 == 0 and rcb == 0 and rc1 != 0)
        print("demo without: rc=%d ; suite with: rc=%d ; demo with: rc=%d => %s" % (rc0, rcb, rc1, "CONFIRMED" if ok else "NOT CONFIRMED"))
        if not ok:
            print(json.dumps(log, indent=1)[-3000:])
            return 1
    finally:
        sh("git -C /repo worktree remove --force %s" % tree)
        shutil.rmtree(tree, ignore_errors=True)
    if src != dst:
        shutil.rmtree(dst, ignore_errors=True)
        shutil.copytree(src, dst)
    for junk in glob.glob(os.path.join(dst, "demo", "go.sum")):
        os.remove(junk)
    meta_p = os.path.join(dst, "meta.json")
    meta = json.load(open(meta_p)) if os.path.exists(meta_p) else {}
    meta["confirmed_by_verif"] = dict(at_repo_head=sh("git -C /repo rev-parse --short HEAD")[1].strip(), ran=log)
    verdicts = {}
    if not nocheck:
        rc, out = sh("git -C /repo apply %s" % os.path.join(dst, "patch.diff"))
        assert rc == 0, out
        try:
            for cid in [pid] + also:
                t0 = time.time()
                rc, out = sh("./check %s --tier quick" % cid, cwd="/verif", timeout=3000)
                lines = [l for l in out.split("\n") if l.startswith(("VIOLATION", "PASS", "FAIL", "ERROR", "KNOWN"))]
                verdicts[cid] = dict(rc=rc, wall_s=round(time.time() - t0, 1), lines=lines[:6])
                print(cid, "rc=%d" % rc, lines[:3])
        finally:
            rc, out = sh("git -C /repo checkout -- . && git -C /repo status --short")
            print("repo restored:", out.strip() or "clean")
            # evidence written while a mutant was applied must not be kept
            sh("git -C /verif checkout -- evidence/ 2>/dev/null; rm -rf /verif/replays")
        meta["checks_on_mutant"] = verdicts
    json.dump(meta, open(meta_p, "w"), indent=1)
    return 0

sys.exit(main())
