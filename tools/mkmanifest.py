#!/usr/bin/env python3
"""Regenerates MANIFEST.json from the table below (kept in one place so it always validates)."""
import json, os
ROOT = os.path.dirname(os.path.dirname(os.path.abspath(__file__)))
BASE_OFF = ("cd /repo/v2 && GOFLAGS=-mod=mod GOPROXY=off GOSUMDB=off GOTOOLCHAIN=local "
            "go1.26 test -json -vet=off -count=1 -timeout 25m ./...")
CHECKS = {}
def add(pid, cat, text, note, technique, ref):
    CHECKS[pid] = dict(property_id=pid, quick_cmd="./check %s --tier quick" % pid,
        thorough_cmd="./check %s --tier thorough" % pid, evidence_file="/verif/evidence/%s.json" % pid,
        replay_cmd_template="./check %s --replay {path}" % pid, engine="coq-kv",
        level_claimed=dict(category=cat, text=text, design_ref=ref), level_note=note, technique=technique)

add("C16", "proof",
    "Theorem C16_normalize_valid (coq/Properties/C16.v): for every 256-entry histogram of non-negative counts with total = sum > 0 and every scale in [256, 65536], the line-by-line Gallina model of NormalizeFrequencies returns a table that sums to scale, is non-zero exactly on the present symbols, and lists them in increasing order. Proved by loop invariants (scaling loop, spreading passes, draining loop with a termination argument); Closed under the global context. The model is tied to the Go function by exact table comparison on every case of the run; the property is also evaluated directly on the Go output.",
    "Go ints as unbounded Z (legal domain < 2^44); precondition total = sum of counts, counts >= 0; model/code agreement is differential (bounded, seeded); extraction by ExtrOcamlBasic only.",
    "Coq proof (invariants over the model) + extracted-model/Go differential correspondence", "5.6, 6/C16")

add("C14", "proof",
    "Theorems in coq/Properties/C14.v over the line-by-line models of DefaultOutputBitStream/DefaultInputBitStream (bit vectors as (value, length) numbers): WriteBit/WriteBits append exactly their bits in every reachable state; for every finite program over WriteBit/WriteBits and every buffer size, Written() equals the sum of the operation sizes at every step and after Close the byte image is the big-endian concatenation of the written bits padded with < 8 zero bits; closed streams refuse every operation whatever the sink does and the counter does not move. WriteArray/ReadArray fast paths and the read side are modelled line by line and executed against the Go code on every run (values, counters after every operation, sink bytes, sink call count), together with a bit-vector reference evaluated directly on the Go implementation; their theorems are not yet proved (stated as such).",
    "Healthy sink, full-length source reads. Proved: writer side for WriteBit/WriteBits/Close/closed-state. Not proved (correspondence + reference only): WriteArray aligned/unaligned bulk paths, ReadBit/ReadBits/ReadArray. Models tied to the Go code differentially (bounded, seeded).",
    "Coq proof (numeric bit-vector refinement of the accumulator/buffer model) + extracted-model/Go differential on random op programs", "5.1, 6/C14")

add("C07", "proof",
    "Theorems in coq/Properties/C07.v about the transition-system model of the hand-off protocol (both sides, the Load/Store pair of the decode handler as two steps): for EVERY number of tasks and EVERY interleaving (induction over steps, invariant Inv): at most one task owns the shared stream; accesses are first+1, first+2, ... without gap or repeat; a natural-number measure strictly decreases on every non-spin step and every non-final reachable state has a non-spin step enabled (no deadlock / lost wake-up, for a failure at any step of any task, end-of-stream and skipped outcomes included); once the cancel value is stored no schedule makes the counter leave it or lets another task touch the stream; the in-order result scan reports the smallest failed task; a completed uncancelled run equals the sequential one. The pre-fix decode publish (plain store) is refuted by a 3-task witness. All Closed under the global context. The model is tied to the real tasks by controlled-scheduler executions replayed through the extracted step function (exhaustive over schedules for 2 tasks).",
    "Atomics are sequentially consistent steps; weak fairness of the Go scheduler; what happens between two hook points is one model step (hooks are placed at every atomic access of the counter). Model/code agreement: all schedules of 2-task batches x one injected failure, sampled for 3..5 tasks.",
    "Coq proof (inductive invariant over an interleaving transition system) + controlled-scheduler trace replay of the real goroutines through the extracted model", "5.5, 6/C07")

STREAM_NOTE = "Codec contracts are assumptions at this layer (exercised by C12/C13). Models coq/Model/Writer.v and Reader.v are tied to the Go objects by operation-sequence correspondence (commands wrm/rdm) on every run; theorems about them are being added (see DESIGN.md); until then the level claimed is exploration."
def stream(pid, text, technique, ref):
    add(pid, "exploration", text, STREAM_NOTE, technique, ref)
add("C01", "proof",
    'Theorems (coq/Properties/C01.v, Closed under the global context) over the line-by-line models of Writer.Write/processBlock/Close and Reader.Read/processBlock: for EVERY partition of the data into Write calls, every job count and EVERY value of the size hint, all Writes return their length, Close succeeds and the blocks handed to the encoding tasks are the consecutive blockSize chunks of the data with ids 1,2,3,... (loop invariants over slots/available incl. stale slot content); Writer then Reader with any job counts/hints on both sides and any sequence of Read lengths returns exactly the data then end-of-stream. Plus implementation-side round-trip search over random pipelines (all shapes, chains 1..8, 9 entropy codecs, inexact hints, headerless) and model/Go correspondence on random call sequences.',
    'Block encoding/decoding is abstract in the stream-layer models: the theorems assume the codec contract (the decoder returns the block handed to the encoder), which C12/C13 and the round-trip search exercise but do not prove. Models coq/Model/Writer.v, Reader.v tied to the Go objects by operation-sequence correspondence (wrm/rdm) on every run; hand-off protocol tied by controlled-scheduler trace replay (C07).',
    'Coq proof (loop invariants over the Writer/Reader state machines) + extracted-model/Go differential + round-trip search', '5.4, 6/C01')
stream("C02", "Payload damage located by an independent container parser (bit flips, substitutions, swaps, in-pipeline damage through verif hooks), reading on after errors; Reader model (Coq, extracted) compared with the Go Reader on damaged and truncated streams.", "fault enumeration over payload positions + extracted Coq Reader model vs Go", "6/C02")
add("C04", "proof",
    'Theorems (coq/Properties/C04.v): the (id, block) pairs handed to the encoding tasks depend on the data only - not on the Write partition, the job count or the size hint (Writer model); for every number of tasks and every interleaving the tasks of a batch append to the shared stream in id order, and a completed run equals the sequential one (hand-off model, encode side). Plus byte comparison of real streams across jobs 1..64, repeated runs, partitions, perturbed schedules and slot-history families.',
    'Block encoding/decoding is abstract in the stream-layer models: the theorems assume the codec contract (the decoder returns the block handed to the encoder), which C12/C13 and the round-trip search exercise but do not prove. Models coq/Model/Writer.v, Reader.v tied to the Go objects by operation-sequence correspondence (wrm/rdm) on every run; hand-off protocol tied by controlled-scheduler trace replay (C07). Assumed: encoding one block is a function of (block, parameters); compared byte for byte by the harness.',
    'Coq proof (Writer invariants + interleaving invariant of the hand-off protocol) + differential byte comparison across jobs/partitions/schedules', '5.4, 5.5, 6/C04')
add("C05", "proof",
    'Theorems (coq/Properties/C05.v): on a valid stream the bytes returned by any sequence of Reads are the data in order for every job count and hint (Reader model; the specification does not mention them); blocks are pulled from the shared stream in id order for every interleaving, a cancel is never overwritten and nobody touches the stream after it (hand-off model, decode side); after a block error every Read returns the error and no data. Plus decoding real streams with every job count under perturbed schedules and with a damaged block at every position, reading on after the error.',
    'Block encoding/decoding is abstract in the stream-layer models: the theorems assume the codec contract (the decoder returns the block handed to the encoder), which C12/C13 and the round-trip search exercise but do not prove. Models coq/Model/Writer.v, Reader.v tied to the Go objects by operation-sequence correspondence (wrm/rdm) on every run; hand-off protocol tied by controlled-scheduler trace replay (C07). The theorem about a failing block in the middle of a batch (bytes before it, error, nothing after) is covered by the model/Go correspondence (rdm with damaged blocks), not yet by a Coq theorem.',
    'Coq proof (Reader cursor invariants + hand-off invariant) + differential decoding across jobs/schedules + failing block at each position', '5.4, 5.5, 6/C05')
add("C06", "proof",
    'Theorems (coq/Properties/C06.v): any partition of the data into Write calls yields the same blocks; any sequence of Read lengths (0 included) returns the next min(len, remaining) bytes - the concatenation is a prefix of the data. Source side (short reads of the io.Reader): the refill loop of the input bit stream is modelled (Model/InBS.v) and compared with the Go code over short-read schedules on every run; plus stream-level decoding from sources delivering 1..4096-byte chunks.',
    "Block encoding/decoding is abstract in the stream-layer models: the theorems assume the codec contract (the decoder returns the block handed to the encoder), which C12/C13 and the round-trip search exercise but do not prove. Models coq/Model/Writer.v, Reader.v tied to the Go objects by operation-sequence correspondence (wrm/rdm) on every run; hand-off protocol tied by controlled-scheduler trace replay (C07). The bit-stream theorem 'read_bits is independent of the chunk schedule' is stated in DESIGN.md but not yet proved: that half is correspondence + search.",
    'Coq proof (Writer/Reader invariants) + extracted InBS model vs Go over chunk schedules', '5.1, 5.4, 6/C06')
stream("C09", "Every strict prefix of small streams (boundary-focused + random for larger) must end in an error; Reader model (Coq, extracted) compared with the Go Reader on streams truncated before the end marker.", "exhaustive cut positions for small streams + extracted Coq Reader model vs Go", "6/C09")
stream("C11", "All ranges x jobs 1..8 on streams of up to 12 blocks against the exact slice, listener check that skipped blocks are not decoded; Reader model (Coq, extracted) with from/to compared with the Go Reader.", "exhaustive small ranges + extracted Coq Reader model vs Go", "6/C11")

stream("C08", "Fault at every call index of the sink and of the source (transient, permanent, Close), retries of Close, with the outcome rules of the property evaluated on the Go objects; bit stream fault programs and Writer sequences with an injected task failure compared with the extracted Coq models.", "exhaustive fault-point enumeration + extracted Coq OutBS/InBS/Writer models vs Go", "6/C08")
add("C17", "proof",
    'Theorems (coq/Properties/C17.v) over the Writer/Reader state-machine models: successful Writes return their full length and Close succeeds for every history of Writes; Write/Close after Close and Read/Close after Close return the documented results and leave the state unchanged (idempotence); a Writer closed without any Write yields a stream whose first Read returns (0, EOF). Byte counters (GetWritten/GetRead monotone, GetWritten = sink bytes after Close) are checked on the Go objects by random call programs, and the writer-side counter is proved at the bit stream level (C14).',
    'Block encoding/decoding is abstract in the stream-layer models: the theorems assume the codec contract (the decoder returns the block handed to the encoder), which C12/C13 and the round-trip search exercise but do not prove. Models coq/Model/Writer.v, Reader.v tied to the Go objects by operation-sequence correspondence (wrm/rdm) on every run; hand-off protocol tied by controlled-scheduler trace replay (C07).',
    'Coq proof over the state-machine models + random API call programs vs extracted models', '5.4, 6/C17')

stream("C12", "Round trip with a sentinel word after the block for all nine entropy codecs over adversarial lengths and histograms (bit-exact consumption measured with the bit counters).", "differential round trip + consumption counters", "6/C12")
stream("C13", "Forward/Inverse of each transform with canary-guarded buffers of exactly the advertised / decompressor sizes, decline-leaves-input-intact, data type hints.", "differential round trip with canaries", "6/C13")

add("C15", "proof",
    "Theorems in coq/Properties/C15.v over the model of GetType/GetName (Model/Names.v) instantiated with the name tables that tools/gotrans regenerates from the switch statements of the current sources: for EVERY string, the type of a name equals the type of its upper-cased spelling (transform chains and entropy names); for EVERY chain of at most 8 known tokens in any letter case with NONE fillers anywhere, name -> type -> name is the canonical chain (induction over the 6-bit packing); the regenerated tables are mutually inverse with 6-bit types; every place where a codec variant is selected from a context string upper-cases it first (regenerated fact), hence selects the same variant for the spelling given to the writer and for the canonical name rebuilt by the reader. Tied to the code by regeneration on every run plus exhaustive dynamic comparison.",
    "ASCII spellings. Translator (tools/gotrans) trusted for the AST facts, cross-checked dynamically. Known residual: a chain containing both ROLZ and ROLZX selects the ROLZX variant for both stages on both sides (strings.Contains on the whole chain) - consistent and decodable, format-compatible, not repaired.",
    "Coq proof over a model regenerated from the Go AST + exhaustive differential of name lookups and stream bytes", "5.9, 6/C15")

add("C10", "translation_validation",
    "Two code histories compared: the vendored reference snapshot (built at check time) encodes and decodes (input, configuration) pairs; wherever the reference round-trips, the current tree must decode the reference stream to exactly the reference decoder's output (1 and 3 jobs); the archived golden corpus (41 streams: every transform, entropy codec, checksum width) must decode to its recorded originals. Proof obligations (coq/Properties/C10.v): every package-level constant and static table extracted from the current sources by tools/gotrans equals the pinned extraction of the reference (Closed under the global context; re-checked against regenerated Gen/Consts.v on every run).",
    "The reference snapshot is trusted to be the pinned version. Tables filled by init() code are not covered by the constant obligation (only by the behavioural comparison). Encoder-side repairs made in /repo are outside this property (it constrains the decoder).",
    "reference-build vs current-build differential + Coq equality obligations on regenerated constants", "6/C10")

add("C03", "other",
    "Partial. Proved in Coq: all goroutines spawned by the library recover panics (fact regenerated from the AST on every run), and the decode side of the hand-off protocol cannot deadlock and does finite work for every n / interleaving / failure point. Searched: structure-aware mutants (forged headers with valid checksum, frame lengths, payload prefixes, transform/entropy tables, truncations at any length, garbage) decoded in child processes with a watchdog, reading on after errors.",
    "Termination and panic-freedom inside unmodelled codec inverses is searched only; memory exhaustion and runtime aborts are outside the model.",
    "Coq obligations on regenerated structure facts + protocol theorems; child-process mutant decoding with watchdog", "6/C03")

add("C18", "other",
    "Partial. Proved in Coq: no assignment to a package-level variable of the library outside init, hashers stateless (facts regenerated from the AST on every run), mutual exclusion on the shared bit stream (C07). Searched: the harness built with -race runs 13 pipelines concurrently (first use of all static tables concurrent, perturbed schedules) and alone, comparing streams and decoded bytes; any race report is a violation.",
    "The race detector only sees executed schedules; the Go memory model is not modelled.",
    "Coq obligations on regenerated structure facts + race detector runs with concurrent-vs-isolated differential", "6/C18")

add("C19", "other",
    "Partial. Proved in Coq over regenerated facts: the CLI level table names only codecs known to the factories (levels 0..9 all accepted configurations). Searched on the built binary: random tree round trips over levels/options/jobs with exit codes, stdin/stdout, no-clobber without --force, refusal to write to its own input through same path / ./path / symlinks / hard links, --rm with failing outputs, SIGKILL at random times during --rm runs followed by inspection (source intact or output decodes).",
    "The file system, durability and the syscall-level interleaving at a kill are not modelled; kill points are sampled in time.",
    "Coq obligation on the regenerated level table + black-box runs of the built binary incl. kill points", "6/C19")

NOT_YET = {}
def main():
    props = [json.loads(l)["id"] for l in open(os.path.join(ROOT, "properties.jsonl"))]
    m = dict(version=1, setup_cmd="./setup.sh",
        hooks=dict(guard="verif", enable="go1.26 build -tags verif (the harness in /verif/harness is always built with -tags verif against /repo/v2 via a replace directive)",
                   baseline_off_cmd=BASE_OFF, source_commits=HOOK_COMMITS, add_only=True),
        engines=[dict(name="coq-kv", path="/verif/coq", serves_properties=sorted(CHECKS),
                      kind_free_text="Coq 8.16.1 development (models, proofs, property files) + extracted OCaml model driver + Go correspondence/search harness, driven by /verif/check")],
        checks=[CHECKS[p] for p in props if p in CHECKS],
        not_applicable=[dict(property_id=p, reason=NOT_YET.get(p, "check not built yet in this snapshot of /verif (work in progress; see DESIGN.md section 6 for the plan)")) for p in props if p not in CHECKS],
        notes="Every check: regenerate facts from /repo, full Coq build + assumption audit of Properties/<id>.v, build Go harness from /repo's working tree (-tags verif), run implementation-side search and model/implementation correspondence, write evidence/<id>.json. See DESIGN.md.")
    json.dump(m, open(os.path.join(ROOT, "MANIFEST.json"), "w"), indent=1)
HOOK_COMMITS = ["4ad4a36"]
if __name__ == "__main__":
    main()
