#!/bin/bash
# usage: goals.sh <file.v> <line>  : show the proof state after <line> lines
f=$1; n=$2
head -$n $f > /tmp/goals_t.v; echo "Show." >> /tmp/goals_t.v
cd /verif/coq && coqtop -Q . KV -batch -l /tmp/goals_t.v 2>&1 | tail -${3:-40}
